import PicoVerif.Spec.LuaLex
/-! Helper lemmas for C07: the ordered pattern table as an explicit first-match chain, the reference
grammar's candidate list, per-matcher start-byte facts, numerals, keywords and symbols. (No Mathlib.) -/
namespace Pico.C07L
open Pico.Lex Pico.Spec.Lex

/-! ### the ordered table as a chain -/

def orK (k : Kind) (o : Option Nat) (rest : Option (Kind × Nat)) : Option (Kind × Nat) :=
  match o with | some n => some (k, n) | none => rest

@[simp] theorem orK_some (k n rest) : orK k (some n) rest = some (k, n) := rfl
@[simp] theorem orK_none (k rest) : orK k none rest = rest := rfl

theorem orK_or (k o r t) : (orK k o r).or t = orK k o (r.or t) := by cases o <;> simp
theorem matchOne_cons (e : Entry) (rest : List Entry) (s : Bytes) :
    matchOne (e :: rest) s = orK ((kindOfClass e.2.2.2).getD .symbol) (entryMatch e s) (matchOne rest s) := by
  rw [matchOne]; cases entryMatch e s <;> rfl

theorem matchOne_append (a b : List Entry) (s : Bytes) :
    matchOne (a ++ b) s = (matchOne a s).or (matchOne b s) := by
  induction a with
  | nil => simp [matchOne]
  | cons e rest ih =>
    rw [List.cons_append, matchOne_cons, matchOne_cons, ih]
    cases entryMatch e s <;> simp

def mkSym (l : Bytes) : Entry := ("lit", "", l, "TokSymbol")

theorem matchOne_syms (lits : List Bytes) (s : Bytes) (hne : ∀ l ∈ lits, l ≠ []) :
    matchOne (lits.map mkSym) s = (lits.find? (fun l => l.isPrefixOf s)).map (fun l => (Kind.symbol, l.length)) := by
  induction lits with
  | nil => simp [matchOne]
  | cons a rest ih =>
    have ha : a ≠ [] := hne a (by simp)
    rw [List.map_cons, matchOne_cons, ih (fun l hl => hne l (by simp [hl])), List.find?_cons]
    have : entryMatch (mkSym a) s = mLit a s := by simp [entryMatch, mkSym]
    rw [this]
    unfold mLit
    cases hp : a.isPrefixOf s <;> simp [ha, mkSym, kindOfClass]

def preShape : List Entry := [
  ("re", "--.*", [], "TokComment"),
  ("re", "//.*", [], "TokComment"),
  ("re", "[ \\t]+", [], "TokSpace"),
  ("lit", "", [13, 10], "TokNewline"),
  ("lit", "", [10], "TokNewline"),
  ("lit", "", [13], "TokNewline"),
  ("re", "0[xX][0-9a-fA-F]+(\\.[0-9a-fA-F]+)?", [], "TokNumber"),
  ("re", "0[xX]\\.[0-9a-fA-F]+", [], "TokNumber"),
  ("re", "0[bB][01]+(\\.[01]+)?", [], "TokNumber"),
  ("re", "0[bB]\\.[01]+", [], "TokNumber"),
  ("re", "[0-9]+(\\.(?!\\.)[0-9]*)?([eE]-?[0-9]+)?", [], "TokNumber"),
  ("re", "\\.[0-9]+([eE]-?[0-9]+)?", [], "TokNumber"),
  ("re", "::[a-zA-Z_\\x80-\\xff][a-zA-Z0-9_\\x80-\\xff]*::", [], "TokLabel"),
  ("kwla", "", [], "TokKeyword")]
def postShape : List Entry := [
  ("re", "[a-zA-Z_\\x80-\\xff][a-zA-Z0-9_\\x80-\\xff]*", [], "TokName"),
  ("lit", "", [63], "TokName")]

theorem shape_split : Gen.matcherShape = preShape ++ symbolSet.map mkSym ++ postShape := by decide +kernel

theorem symbolSet_ne : ∀ l ∈ symbolSet, l ≠ [] := by decide +kernel

theorem preShape_eq (s : Bytes) (tail : Option (Kind × Nat)) : (matchOne preShape s).or tail =
   orK .comment (mLineComment 45 s) (orK .comment (mLineComment 47 s) (orK .space (mSpace s)
   (orK .newline (mLit [13,10] s) (orK .newline (mLit [10] s) (orK .newline (mLit [13] s)
   (orK .number (mRadix 120 88 isHexDigit s) (orK .number (mRadixFrac 120 88 isHexDigit s)
   (orK .number (mRadix 98 66 isBinDigit s) (orK .number (mRadixFrac 98 66 isBinDigit s)
   (orK .number (mDecimal s) (orK .number (mDotDecimal s) (orK .label (mLabel s)
   (orK .keyword (mKeywordLA Gen.matcherKeywords s) tail))))))))))))) := by
  simp only [preShape, matchOne_cons]
  simp [entryMatch, reMatcher, kindOfClass, matchOne, orK_or]

theorem postShape_eq (s : Bytes) : matchOne postShape s = orK .name (mName s) (orK .name (mLit [63] s) none) := by
  simp only [postShape, matchOne_cons]
  simp [entryMatch, reMatcher, kindOfClass, matchOne]

theorem matchOne_shape (s : Bytes) : matchOne Gen.matcherShape s =
   orK .comment (mLineComment 45 s) (orK .comment (mLineComment 47 s) (orK .space (mSpace s)
   (orK .newline (mLit [13,10] s) (orK .newline (mLit [10] s) (orK .newline (mLit [13] s)
   (orK .number (mRadix 120 88 isHexDigit s) (orK .number (mRadixFrac 120 88 isHexDigit s)
   (orK .number (mRadix 98 66 isBinDigit s) (orK .number (mRadixFrac 98 66 isBinDigit s)
   (orK .number (mDecimal s) (orK .number (mDotDecimal s) (orK .label (mLabel s)
   (orK .keyword (mKeywordLA Gen.matcherKeywords s)
   (((symbolSet.find? (fun l => l.isPrefixOf s)).map (fun l => (Kind.symbol, l.length))).or
    (orK .name (mName s) (orK .name (mLit [63] s) none)))))))))))))))) := by
  rw [shape_split, List.append_assoc, matchOne_append, matchOne_append, preShape_eq,
    matchOne_syms _ _ symbolSet_ne, postShape_eq]

/-! ### the reference grammar's candidates -/

def pick (cands : List (Kind × Nat)) : Option (Kind × Nat) :=
  cands.foldl (fun best c => match best with
    | none => some c
    | some b => if c.2 > b.2 then some c else some b) none
def optL (k : Kind) (o : Option Nat) : List (Kind × Nat) := match o with | some n => [(k, n)] | none => []
def optW (o : Option (Kind × Nat)) : List (Kind × Nat) := match o with | some kn => [kn] | none => []
def symC (s : Bytes) : List (Kind × Nat) :=
  if longestPrefixIn symbolSet s > 0 then [(Kind.symbol, longestPrefixIn symbolSet s)] else []

theorem lexOne_plain (c : UInt8) (r : Bytes) (hq1 : c ≠ 34) (hq2 : c ≠ 39)
    (h0 : [45, 45, 91, 91].isPrefixOf (c :: r) = false)
    (hc1 : [45, 45].isPrefixOf (c :: r) = false) (hc2 : [47, 47].isPrefixOf (c :: r) = false)
    (hlo : c = 91 → (r.drop (spanLen (· == 61) r)).head? ≠ some 91) :
    (lexOne (c :: r)).map (fun tn => (tn.1.kind, tn.2)) =
      pick (optL .space (mSpace (c :: r)) ++ optL .newline (newlineLen (c :: r)) ++
        optL .number (numeralLen (c :: r)) ++ optL .label (mLabel (c :: r)) ++
        optW (wordTok (c :: r)) ++ symC (c :: r)) := by
  unfold lexOne
  rw [if_neg (by simp [h0]), if_neg (by simp [hc1, hc2])]
  dsimp only
  split
  · next n hn =>
    split at hn
    · next r' heq =>
      simp only [List.cons.injEq] at heq
      obtain ⟨rfl, rfl⟩ := heq
      rw [if_neg (hlo rfl)] at hn
      cases hn
    · cases hn
  · have hq : ¬ (c = 34 ∨ c = 39) := by simp [hq1, hq2]
    rw [if_neg hq]
    have key : ∀ (cands : List (Kind × Nat)),
        Option.map (fun tn : Tok × Nat => (tn.fst.kind, tn.snd))
          (match pick cands with
            | some (k, n) => some ({ kind := k, data := List.take n (c :: r) }, n)
            | none => none) = pick cands := by
      intro cands; rcases pick cands with _ | ⟨k, n⟩ <;> rfl
    exact key _

/-! ### start-byte facts for the matchers -/

theorem mLineComment_eq (c0 : UInt8) (s : Bytes) : mLineComment c0 s =
    if [c0, c0].isPrefixOf s then some (2 + spanLen (· != 10) (s.drop 2)) else none := by
  match s with
  | [] => simp [mLineComment]
  | [a] => simp [mLineComment, List.isPrefixOf]
  | a :: b :: rest =>
    simp only [mLineComment, List.isPrefixOf, Bool.and_true, List.drop_succ_cons, List.drop_zero]
    by_cases h1 : a = c0
    · by_cases h2 : b = c0
      · simp [h1, h2]
      · simp [h1, h2, Ne.symm h2]
    · simp [h1, Ne.symm h1]

theorem mSpace_ne {c : UInt8} {r : Bytes} (h1 : c ≠ 32) (h2 : c ≠ 9) : mSpace (c :: r) = none := by
  simp [mSpace, spanLen, h1, h2]

theorem mSpace_eq {c : UInt8} {r : Bytes} (h : c = 32 ∨ c = 9) :
    mSpace (c :: r) = some (1 + spanLen (fun b => b == 32 || b == 9) r) := by
  have : (c == 32 || c == 9) = true := by simpa using h
  simp [mSpace, spanLen, this]; omega

theorem mLit_ne {l : Bytes} {c : UInt8} {r : Bytes} (h : l.head? ≠ some c) : mLit l (c :: r) = none := by
  cases l with
  | nil => simp [mLit]
  | cons a l' =>
    have : a ≠ c := by simpa using h
    simp [mLit, List.isPrefixOf, this]

theorem newlineLen_ne {c : UInt8} {r : Bytes} (h1 : c ≠ 13) (h2 : c ≠ 10) : newlineLen (c :: r) = none := by
  unfold newlineLen
  split <;> simp_all

theorem mRadix_ne {p1 p2 : UInt8} {dig : UInt8 → Bool} {c : UInt8} {r : Bytes} (h : c ≠ 48) :
    mRadix p1 p2 dig (c :: r) = none := by
  cases r <;> simp [mRadix, h]

theorem mRadixFrac_ne {p1 p2 : UInt8} {dig : UInt8 → Bool} {c : UInt8} {r : Bytes} (h : c ≠ 48) :
    mRadixFrac p1 p2 dig (c :: r) = none := by
  match r with
  | [] => simp [mRadixFrac]
  | [_] => simp [mRadixFrac]
  | _ :: _ :: _ => simp [mRadixFrac, h]

theorem mDecimal_ne {c : UInt8} {r : Bytes} (h : isDigit c = false) : mDecimal (c :: r) = none := by
  simp [mDecimal, spanLen, h]

theorem mDotDecimal_ne {c : UInt8} {r : Bytes} (h : c ≠ 46) : mDotDecimal (c :: r) = none := by
  simp [mDotDecimal, h]

theorem mLabel_ne {c : UInt8} {r : Bytes} (h : c ≠ 58) : mLabel (c :: r) = none := by
  match r with
  | [] => simp [mLabel]
  | [_] => simp [mLabel]
  | _ :: _ :: _ => simp [mLabel, h]

theorem mName_ne {c : UInt8} {r : Bytes} (h : isIdentStart c = false) : mName (c :: r) = none := by
  simp [mName, h]

theorem wordTok_ne {c : UInt8} {r : Bytes} (h : isIdentStart c = false) (h2 : c ≠ 63) :
    wordTok (c :: r) = none := by
  simp [wordTok, mName_ne h, h2]

def kwStart (c : UInt8) : Bool := Gen.matcherKeywords.any (fun l => l.head? == some c)
def symStart (c : UInt8) : Bool := symbolSet.any (fun l => l.head? == some c)

theorem find_prefix_none (set : List Bytes) (c : UInt8) (r : Bytes) (p : Bytes → Bool)
    (h : set.any (fun l => l.head? == some c) = false) (hne : ∀ l ∈ set, l ≠ []) :
    set.find? (fun l => l.isPrefixOf (c :: r) && p l) = none := by
  rw [List.find?_eq_none]
  intro l hl
  have h1 := hne l hl
  rw [List.any_eq_false] at h
  have h2 := h l hl
  cases l with
  | nil => exact absurd rfl h1
  | cons a l' =>
    have : a ≠ c := by simpa using h2
    simp [List.isPrefixOf, this]

theorem kw_ne : ∀ l ∈ Gen.matcherKeywords, l ≠ [] := by decide +kernel

theorem mKeywordLA_ne {c : UInt8} {r : Bytes} (h : kwStart c = false) :
    mKeywordLA Gen.matcherKeywords (c :: r) = none := by
  unfold mKeywordLA
  rw [find_prefix_none _ c r _ h kw_ne]; rfl

theorem symFind_ne {c : UInt8} {r : Bytes} (h : symStart c = false) :
    symbolSet.find? (fun l => l.isPrefixOf (c :: r)) = none := by
  have := find_prefix_none symbolSet c r (fun _ => true) h symbolSet_ne
  simpa using this

/-! ### longest symbol -/

theorem foldl_longest_ge (set : List Bytes) (s : Bytes) (b : Nat) :
    b ≤ set.foldl (fun best l => if l.isPrefixOf s ∧ l.length > best then l.length else best) b ∧
    ∀ l ∈ set, l.isPrefixOf s = true →
      l.length ≤ set.foldl (fun best l => if l.isPrefixOf s ∧ l.length > best then l.length else best) b := by
  induction set generalizing b with
  | nil => simp
  | cons a rest ih =>
    simp only [List.foldl_cons, List.mem_cons]
    have hb1 : b ≤ (if a.isPrefixOf s ∧ a.length > b then a.length else b) := by split <;> omega
    have hb2 : a.isPrefixOf s = true → a.length ≤ (if a.isPrefixOf s ∧ a.length > b then a.length else b) := by
      intro hp; split
      · omega
      · next hn => simp [hp] at hn; omega
    generalize (if a.isPrefixOf s ∧ a.length > b then a.length else b) = b' at hb1 hb2 ⊢
    obtain ⟨h1, h2⟩ := ih b'
    refine ⟨by omega, ?_⟩
    rintro l (rfl | hl) hp
    · exact Nat.le_trans (hb2 hp) h1
    · exact h2 l hl hp

theorem foldl_longest_le (set : List Bytes) (s : Bytes) (b k : Nat) (hb : b ≤ k)
    (h : ∀ l ∈ set, l.isPrefixOf s = true → l.length ≤ k) :
    set.foldl (fun best l => if l.isPrefixOf s ∧ l.length > best then l.length else best) b ≤ k := by
  induction set generalizing b with
  | nil => simpa
  | cons a rest ih =>
    simp only [List.foldl_cons]
    apply ih
    · split
      · next hc => exact h a (by simp) hc.1
      · exact hb
    · intro l hl; exact h l (by simp [hl])

theorem longest_ge {set : List Bytes} {s l : Bytes} (hl : l ∈ set) (hp : l.isPrefixOf s = true) :
    l.length ≤ longestPrefixIn set s := (foldl_longest_ge set s 0).2 l hl hp

theorem longest_le {set : List Bytes} {s : Bytes} {k : Nat}
    (h : ∀ l ∈ set, l.isPrefixOf s = true → l.length ≤ k) : longestPrefixIn set s ≤ k :=
  foldl_longest_le set s 0 k (Nat.zero_le _) h

/-- "the first matching symbol is the longest one", supplied by `ordered_first_is_longest` -/
def FirstLongest (set : List Bytes) : Prop :=
  ∀ s l, set.find? (fun x => x.isPrefixOf s) = some l → ∀ l' ∈ set, l'.isPrefixOf s = true → l'.length ≤ l.length

@[simp] theorem pick_nil : pick [] = none := rfl
@[simp] theorem pick_one (x : Kind × Nat) : pick [x] = some x := rfl
theorem pick_two (a b : Kind × Nat) : pick [a, b] = if b.2 > a.2 then some b else some a := rfl

theorem sym_agree (hs : FirstLongest symbolSet) (s : Bytes) :
    (symbolSet.find? (fun l => l.isPrefixOf s)).map (fun l => (Kind.symbol, l.length)) = pick (symC s) := by
  cases hf : symbolSet.find? (fun l => l.isPrefixOf s) with
  | none =>
    have : longestPrefixIn symbolSet s ≤ 0 := longest_le (fun l hl hp => by
      rw [List.find?_eq_none] at hf
      exact absurd hp (hf l hl))
    simp [symC, Nat.le_zero.mp this]
  | some l =>
    have hmem := List.mem_of_find?_eq_some hf
    have hp : l.isPrefixOf s = true := by simpa using List.find?_some hf
    have h1 : longestPrefixIn symbolSet s ≤ l.length := longest_le (hs s l hf)
    have h2 := longest_ge hmem hp
    have h3 : l.length > 0 := List.length_pos_iff.mpr (symbolSet_ne l hmem)
    have : longestPrefixIn symbolSet s = l.length := by omega
    simp [symC, this, h3]

theorem symC_of_le {s : Bytes} {k : Nat} (h : longestPrefixIn symbolSet s ≤ k) :
    symC s = [] ∨ ∃ m, m ≤ k ∧ symC s = [(Kind.symbol, m)] := by
  unfold symC
  split
  · exact Or.inr ⟨_, h, rfl⟩
  · exact Or.inl rfl

theorem symC_ne {c : UInt8} {r : Bytes} (h : symStart c = false) : symC (c :: r) = [] := by
  have : longestPrefixIn symbolSet (c :: r) ≤ 0 := longest_le (fun l hl hp => by
    have := symFind_ne (r := r) h
    rw [List.find?_eq_none] at this
    exact absurd hp (this l hl))
  simp [symC, Nat.le_zero.mp this]

/-! ### keywords versus the identifier run -/

theorem takeWhile_of_prefix {p : UInt8 → Bool} {a s : Bytes} (hp : a.isPrefixOf s = true)
    (ha : a.all p = true) (hn : ((s.drop a.length).head?.map p).getD false = false) :
    s.takeWhile p = a := by
  obtain ⟨t, rfl⟩ := List.isPrefixOf_iff_prefix.mp hp
  rw [List.all_eq_true] at ha
  rw [List.takeWhile_append_of_pos ha]
  simp only [List.drop_left] at hn
  cases t with
  | nil => simp
  | cons x t' =>
    have : p x = false := by simpa using hn
    simp [this]

theorem head_drop_takeWhile (p : UInt8 → Bool) (s : Bytes) :
    ((s.drop (s.takeWhile p).length).head?.map p).getD false = false := by
  induction s with
  | nil => simp
  | cons x s ih =>
    rw [List.takeWhile_cons]
    by_cases hx : p x = true
    · simpa [hx] using ih
    · simp [hx]

theorem kw_identChars : ∀ l ∈ Gen.matcherKeywords, l.all isIdentChar = true := by decide +kernel
theorem kw_eq : Gen.luaKeywords = Gen.matcherKeywords := by decide +kernel

theorem identRun_cons {c : UInt8} (r : Bytes) (h : isIdentStart c = true) :
    1 + spanLen isIdentChar r = spanLen isIdentChar (c :: r) := by
  simp [spanLen, isIdentChar, h]; omega

/-- the keyword entry fires exactly when the maximal identifier run is a reserved word -/
theorem mKeywordLA_run (s : Bytes) :
    mKeywordLA Gen.matcherKeywords s =
      if Gen.luaKeywords.contains (s.take (spanLen isIdentChar s)) then some (spanLen isIdentChar s) else none := by
  unfold mKeywordLA
  rw [kw_eq]
  cases hf : Gen.matcherKeywords.find? (fun kw => kw.isPrefixOf s && !((s.drop kw.length).head?.map isIdentChar).getD false) with
  | some kw =>
    have hmem := List.mem_of_find?_eq_some hf
    have hp := List.find?_some hf
    simp only [Bool.and_eq_true, Bool.not_eq_true'] at hp
    have htw := takeWhile_of_prefix hp.1 (kw_identChars kw hmem) hp.2
    have htake : s.take kw.length = kw := by
      obtain ⟨t, rfl⟩ := List.isPrefixOf_iff_prefix.mp hp.1
      simp
    simp only [spanLen, htw, htake, Option.map_some]
    rw [if_pos (by simpa using hmem)]
  | none =>
    rw [List.find?_eq_none] at hf
    simp only [Option.map_none]
    rw [if_neg]
    intro hc
    have hmem : s.take (spanLen isIdentChar s) ∈ Gen.matcherKeywords := by simpa using hc
    apply hf _ hmem
    have hlen : (s.take (spanLen isIdentChar s)).length = spanLen isIdentChar s := by
      have := (List.takeWhile_prefix (l := s) isIdentChar).length_le
      simp [spanLen]; omega
    rw [hlen]
    simp only [Bool.and_eq_true, Bool.not_eq_true']
    refine ⟨?_, head_drop_takeWhile isIdentChar s⟩
    exact List.isPrefixOf_iff_prefix.mpr (List.take_prefix _ _)

/-! ### numerals: the first matching form is the longest -/

def firstNum (s : Bytes) : Option Nat :=
  (mRadix 120 88 isHexDigit s).or ((mRadixFrac 120 88 isHexDigit s).or ((mRadix 98 66 isBinDigit s).or
    ((mRadixFrac 98 66 isBinDigit s).or ((mDecimal s).or (mDotDecimal s)))))

theorem orK_orK (k : Kind) (a b : Option Nat) (rest : Option (Kind × Nat)) :
    orK k a (orK k b rest) = orK k (a.or b) rest := by cases a <;> rfl

theorem mRadix_ne2 {p1 p2 : UInt8} {dig : UInt8 → Bool} {z x : UInt8} {r : Bytes} (h1 : x ≠ p1) (h2 : x ≠ p2) :
    mRadix p1 p2 dig (z :: x :: r) = none := by
  simp [mRadix, h1, h2]

theorem mRadixFrac_ne2 {p1 p2 : UInt8} {dig : UInt8 → Bool} {z x : UInt8} {r : Bytes} (h1 : x ≠ p1) (h2 : x ≠ p2) :
    mRadixFrac p1 p2 dig (z :: x :: r) = none := by
  cases r <;> simp [mRadixFrac, h1, h2]

theorem mRadix_ge {p1 p2 : UInt8} {dig : UInt8 → Bool} {s : Bytes} {n : Nat}
    (h : mRadix p1 p2 dig s = some n) : 1 ≤ n := by
  unfold mRadix at h
  split at h
  · split at h
    · simp only at h
      split at h
      · cases h
      · split at h
        · split at h <;> (cases h; omega)
        · cases h; omega
    · cases h
  · cases h

theorem mRadixFrac_ge {p1 p2 : UInt8} {dig : UInt8 → Bool} {s : Bytes} {n : Nat}
    (h : mRadixFrac p1 p2 dig s = some n) : 1 ≤ n := by
  unfold mRadixFrac at h
  split at h
  · split at h
    · simp only at h
      split at h
      · cases h
      · cases h; omega
    · cases h
  · cases h

theorem mRadix_dot {p1 p2 : UInt8} {dig : UInt8 → Bool} {z x : UInt8} {r : Bytes} (h : dig 46 = false) :
    mRadix p1 p2 dig (z :: x :: 46 :: r) = none := by
  simp [mRadix, spanLen, h]

theorem mRadix_short {p1 p2 : UInt8} {dig : UInt8 → Bool} {z x : UInt8} :
    mRadix p1 p2 dig [z, x] = none := by
  simp [mRadix, spanLen]

theorem mRadixFrac_short {p1 p2 : UInt8} {dig : UInt8 → Bool} {z x : UInt8} :
    mRadixFrac p1 p2 dig [z, x] = none := by
  simp [mRadixFrac]

theorem mRadixFrac_nodot {p1 p2 : UInt8} {dig : UInt8 → Bool} {z x y : UInt8} {r : Bytes} (h : y ≠ 46) :
    mRadixFrac p1 p2 dig (z :: x :: y :: r) = none := by
  simp [mRadixFrac, h]

theorem mDecimal_zero_x {x : UInt8} {r : Bytes} (h : x = 120 ∨ x = 88 ∨ x = 98 ∨ x = 66) :
    mDecimal (48 :: x :: r) = some 1 := by
  rcases h with rfl | rfl | rfl | rfl <;> simp [mDecimal, spanLen, isDigit, expLen]

theorem mDecimal_isSome {c : UInt8} {r : Bytes} (h : isDigit c = true) : ∃ n, mDecimal (c :: r) = some n := by
  simp [mDecimal, spanLen, h]

theorem maxOpt_two_ge {a b : Nat} (h : b ≤ a) : max a b = a := by omega

theorem numeral_radix_case {p1 p2 : UInt8} {dig : UInt8 → Bool} (x : UInt8) (rest : Bytes) (h46 : dig 46 = false) :
    (mRadix p1 p2 dig (48 :: x :: rest) = none ∧ mRadixFrac p1 p2 dig (48 :: x :: rest) = none) ∨
    (∃ n, 1 ≤ n ∧ mRadix p1 p2 dig (48 :: x :: rest) = some n ∧ mRadixFrac p1 p2 dig (48 :: x :: rest) = none) ∨
    (∃ n, 1 ≤ n ∧ mRadix p1 p2 dig (48 :: x :: rest) = none ∧ mRadixFrac p1 p2 dig (48 :: x :: rest) = some n) := by
  match rest with
  | [] => exact Or.inl ⟨mRadix_short, mRadixFrac_short⟩
  | y :: rest' =>
    by_cases hy : y = 46
    · subst hy
      cases hf : mRadixFrac p1 p2 dig (48 :: x :: 46 :: rest') with
      | none => exact Or.inl ⟨mRadix_dot h46, rfl⟩
      | some n => exact Or.inr (Or.inr ⟨n, mRadixFrac_ge hf, mRadix_dot h46, rfl⟩)
    · cases hf : mRadix p1 p2 dig (48 :: x :: y :: rest') with
      | none => exact Or.inl ⟨rfl, mRadixFrac_nodot hy⟩
      | some n => exact Or.inr (Or.inl ⟨n, mRadix_ge hf, rfl, mRadixFrac_nodot hy⟩)

theorem numeral_first_max (s : Bytes) : firstNum s = numeralLen s := by
  unfold firstNum numeralLen
  match s with
  | [] => simp [mRadix, mRadixFrac, mDecimal, mDotDecimal, spanLen, maxOpt]
  | c :: r =>
    by_cases hc : c = 48
    · subst hc
      have hdd : mDotDecimal (48 :: r) = none := mDotDecimal_ne (by decide)
      match r with
      | [] => cases hm : mDecimal [48] <;> simp [mRadix, mRadixFrac, hdd, maxOpt]
      | x :: rest =>
        by_cases hx : x = 120 ∨ x = 88
        · have hx' : x ≠ 98 ∧ x ≠ 66 := by rcases hx with rfl | rfl <;> decide
          rw [mRadix_ne2 (p1 := 98) hx'.1 hx'.2, mRadixFrac_ne2 (p1 := 98) hx'.1 hx'.2, hdd,
            mDecimal_zero_x (by rcases hx with rfl | rfl <;> simp)]
          rcases numeral_radix_case (p1 := 120) (p2 := 88) (dig := isHexDigit) x rest (by decide) with
            ⟨h1, h2⟩ | ⟨n, hn, h1, h2⟩ | ⟨n, hn, h1, h2⟩
          · simp [h1, h2, maxOpt]
          · simp [h1, h2, maxOpt, maxOpt_two_ge hn]
          · simp [h1, h2, maxOpt, maxOpt_two_ge hn]
        · by_cases hx2 : x = 98 ∨ x = 66
          · have hx' : x ≠ 120 ∧ x ≠ 88 := by rcases hx2 with rfl | rfl <;> decide
            rw [mRadix_ne2 (p1 := 120) hx'.1 hx'.2, mRadixFrac_ne2 (p1 := 120) hx'.1 hx'.2, hdd,
              mDecimal_zero_x (by rcases hx2 with rfl | rfl <;> simp)]
            rcases numeral_radix_case (p1 := 98) (p2 := 66) (dig := isBinDigit) x rest (by decide) with
              ⟨h1, h2⟩ | ⟨n, hn, h1, h2⟩ | ⟨n, hn, h1, h2⟩
            · simp [h1, h2, maxOpt]
            · simp [h1, h2, maxOpt, maxOpt_two_ge hn]
            · simp [h1, h2, maxOpt, maxOpt_two_ge hn]
          · simp only [not_or] at hx hx2
            rw [mRadix_ne2 hx.1 hx.2, mRadixFrac_ne2 hx.1 hx.2, mRadix_ne2 hx2.1 hx2.2,
              mRadixFrac_ne2 hx2.1 hx2.2, hdd]
            cases mDecimal (48 :: x :: rest) <;> simp [maxOpt]
    · rw [mRadix_ne hc, mRadixFrac_ne hc, mRadix_ne hc, mRadixFrac_ne hc]
      by_cases hd : isDigit c = true
      · have : c ≠ 46 := by rintro rfl; simp [isDigit] at hd
        rw [mDotDecimal_ne this]
        cases mDecimal (c :: r) <;> simp [maxOpt]
      · rw [mDecimal_ne (by simpa using hd)]
        cases mDotDecimal (c :: r) <;> simp [maxOpt]

/-! ### the table with the numeral block collapsed; per-byte classification -/

theorem matchOne_shape' (s : Bytes) : matchOne Gen.matcherShape s =
   orK .comment (mLineComment 45 s) (orK .comment (mLineComment 47 s) (orK .space (mSpace s)
   (orK .newline (mLit [13,10] s) (orK .newline (mLit [10] s) (orK .newline (mLit [13] s)
   (orK .number (numeralLen s) (orK .label (mLabel s)
   (orK .keyword (mKeywordLA Gen.matcherKeywords s)
   (((symbolSet.find? (fun l => l.isPrefixOf s)).map (fun l => (Kind.symbol, l.length))).or
    (orK .name (mName s) (orK .name (mLit [63] s) none))))))))))) := by
  rw [matchOne_shape, ← numeral_first_max, firstNum]
  simp only [orK_orK Kind.number]

theorem numeralLen_ne {c : UInt8} {r : Bytes} (h : isDigit c = false) (h2 : c ≠ 46) :
    numeralLen (c :: r) = none := by
  have : c ≠ 48 := by rintro rfl; simp [isDigit] at h
  rw [← numeral_first_max, firstNum, mRadix_ne this, mRadixFrac_ne this, mRadix_ne this, mRadixFrac_ne this,
    mDecimal_ne h, mDotDecimal_ne h2]; rfl

theorem numeralLen_dot (r : Bytes) : numeralLen (46 :: r) = mDotDecimal (46 :: r) := by
  have h : (46 : UInt8) ≠ 48 := by decide
  rw [← numeral_first_max, firstNum, mRadix_ne h, mRadixFrac_ne h, mRadix_ne h, mRadixFrac_ne h,
    mDecimal_ne (by decide)]; rfl

theorem mDotDecimal_some {r : Bytes} {n : Nat} (h : mDotDecimal (46 :: r) = some n) :
    2 ≤ n ∧ ∃ d r', r = d :: r' ∧ isDigit d = true := by
  simp only [mDotDecimal, if_true] at h
  split at h
  · cases h
  · next hn =>
    cases h
    refine ⟨by omega, ?_⟩
    match r with
    | [] => simp [spanLen] at hn
    | d :: r' =>
      refine ⟨d, r', rfl, ?_⟩
      by_cases hd : isDigit d = true
      · exact hd
      · simp [spanLen, hd] at hn

theorem mLabel_ge {s : Bytes} {n : Nat} (h : mLabel s = some n) : 5 ≤ n := by
  unfold mLabel at h
  split at h
  · split at h
    · simp only at h
      split at h
      · split at h
        · cases h; omega
        · cases h
      · cases h
    · cases h
  · cases h

theorem sym_len3 : ∀ l ∈ symbolSet, l.length ≤ 3 := by decide +kernel

theorem sym_dot : symbolSet.all (fun l => l.head? != some 46 || decide (l.length ≤ 1) || l[1]? == some 46) = true := by
  decide +kernel

theorem longest_dot_digit {d : UInt8} {r : Bytes} (hd : isDigit d = true) :
    longestPrefixIn symbolSet (46 :: d :: r) ≤ 1 := by
  apply longest_le
  intro l hl hp
  have := List.all_eq_true.mp sym_dot l hl
  match l, hp, this with
  | [], _, _ => simp
  | [_], _, _ => simp
  | a :: b :: l', hp, this =>
    simp only [List.isPrefixOf, Bool.and_eq_true, beq_iff_eq] at hp
    obtain ⟨rfl, rfl, _⟩ := hp
    simp at this
    subst this
    simp [isDigit] at hd

def digitTab (b : UInt8) : Bool :=
  !isDigit b || (b != 32 && b != 9 && b != 13 && b != 10 && b != 46 && b != 58 && b != 63 &&
    !isIdentStart b && !symStart b && !kwStart b)
theorem digit_tab : ∀ b, digitTab b = true := forall_u8 _ (by decide +kernel)

def identTab (b : UInt8) : Bool :=
  !isIdentStart b || (b != 32 && b != 9 && b != 13 && b != 10 && b != 46 && b != 58 && b != 63 &&
    !isDigit b && !symStart b)
theorem ident_tab : ∀ b, identTab b = true := forall_u8 _ (by decide +kernel)

def nonIdentTab (b : UInt8) : Bool := isIdentStart b || !kwStart b
theorem nonIdent_tab : ∀ b, nonIdentTab b = true := forall_u8 _ (by decide +kernel)

/-! ### first match = longest match -/

theorem lexOne_comment (s : Bytes) (h0 : [45, 45, 91, 91].isPrefixOf s = false)
    (h : [45, 45].isPrefixOf s = true ∨ [47, 47].isPrefixOf s = true) :
    (lexOne s).map (fun tn => (tn.1.kind, tn.2)) = some (Kind.comment, 2 + spanLen (· != 10) (s.drop 2)) := by
  unfold lexOne
  rw [if_neg (by simp [h0]), if_pos h]
  rfl

theorem core (hs : FirstLongest symbolSet) (c : UInt8) (r : Bytes) (hq1 : c ≠ 34) (hq2 : c ≠ 39)
    (h0 : [45, 45, 91, 91].isPrefixOf (c :: r) = false)
    (hlo : c = 91 → (r.drop (spanLen (· == 61) r)).head? ≠ some 91) :
    (matchOne Gen.matcherShape (c :: r)).map (fun kn => (kn.1, kn.2)) =
      (lexOne (c :: r)).map (fun tn => (tn.1.kind, tn.2)) := by
  rw [matchOne_shape', Option.map_id']
  simp only [mLineComment_eq]
  by_cases hc1 : [45, 45].isPrefixOf (c :: r) = true
  · rw [lexOne_comment _ h0 (Or.inl hc1)]; simp [hc1]
  by_cases hc2 : [47, 47].isPrefixOf (c :: r) = true
  · rw [lexOne_comment _ h0 (Or.inr hc2)]; simp [hc1, hc2]
  have hc1' : [45, 45].isPrefixOf (c :: r) = false := Bool.eq_false_iff.mpr hc1
  have hc2' : [47, 47].isPrefixOf (c :: r) = false := Bool.eq_false_iff.mpr hc2
  rw [lexOne_plain c r hq1 hq2 h0 hc1' hc2' hlo]
  simp only [hc1', hc2', Bool.false_eq_true, if_false, orK_none]
  clear hc1 hc2 hc1' hc2' h0 hlo
  by_cases h32 : c = 32
  · subst h32
    simp [mSpace_eq, newlineLen_ne, numeralLen_ne, mLabel_ne, wordTok_ne, isDigit, isIdentStart,
      symC_ne (show symStart 32 = false by decide), optL, optW]
  by_cases h9 : c = 9
  · subst h9
    simp [mSpace_eq, newlineLen_ne, numeralLen_ne, mLabel_ne, wordTok_ne, isDigit, isIdentStart,
      symC_ne (show symStart 9 = false by decide), optL, optW]
  have hsp := mSpace_ne (r := r) h32 h9
  by_cases h10 : c = 10
  · subst h10
    simp [hsp, mLit, newlineLen, numeralLen_ne, mLabel_ne, wordTok_ne, isDigit, isIdentStart,
      symC_ne (show symStart 10 = false by decide), optL, optW]
  by_cases h13 : c = 13
  · subst h13
    have hrest : numeralLen (13 :: r) = none ∧ mLabel (13 :: r) = none ∧ wordTok (13 :: r) = none ∧
        symC (13 :: r) = [] :=
      ⟨numeralLen_ne (by decide) (by decide), mLabel_ne (by decide), wordTok_ne (by decide) (by decide),
        symC_ne (by decide)⟩
    match r with
    | [] => simp [hsp, hrest, mLit, newlineLen, optL, optW]
    | d :: r' =>
      by_cases hd : d = 10
      · subst hd; simp [hsp, hrest, mLit, newlineLen, optL, optW]
      · simp [hsp, hrest, mLit, newlineLen, optL, optW, hd, Ne.symm hd]
  have hnl1 : mLit [13, 10] (c :: r) = none := mLit_ne (by simpa using Ne.symm h13)
  have hnl2 : mLit [10] (c :: r) = none := mLit_ne (by simpa using Ne.symm h10)
  have hnl3 : mLit [13] (c :: r) = none := mLit_ne (by simpa using Ne.symm h13)
  have hnl := newlineLen_ne (r := r) h13 h10
  simp only [hsp, hnl1, hnl2, hnl3, hnl, orK_none, optL, List.nil_append]
  clear hsp hnl1 hnl2 hnl3 hnl h32 h9 h10 h13
  by_cases h46 : c = 46
  · subst h46
    have hkw : mKeywordLA Gen.matcherKeywords (46 :: r) = none := mKeywordLA_ne (by decide)
    rw [numeralLen_dot, mLabel_ne (by decide), hkw, mName_ne (by decide), mLit_ne (by decide),
      wordTok_ne (by decide) (by decide), sym_agree hs]
    cases hdd : mDotDecimal (46 :: r) with
    | none => simp [optW]
    | some n =>
      obtain ⟨hn, d, r', rfl, hd⟩ := mDotDecimal_some hdd
      rcases symC_of_le (longest_dot_digit (r := r') hd) with h | ⟨m, hm, h⟩
      · simp [h, optW]
      · simp [h, optW, pick_two]; omega
  by_cases h58 : c = 58
  · subst h58
    have hkw : mKeywordLA Gen.matcherKeywords (58 :: r) = none := mKeywordLA_ne (by decide)
    rw [numeralLen_ne (by decide) (by decide), hkw, mName_ne (by decide), mLit_ne (by decide),
      wordTok_ne (by decide) (by decide), sym_agree hs]
    cases hlb : mLabel (58 :: r) with
    | none => simp [optW]
    | some n =>
      have hn := mLabel_ge hlb
      rcases symC_of_le (s := 58 :: r) (longest_le (fun l hl _ => sym_len3 l hl)) with h | ⟨m, hm, h⟩
      · simp [h, optW]
      · simp [h, optW, pick_two]; omega
  by_cases h63 : c = 63
  · subst h63
    have hkw : mKeywordLA Gen.matcherKeywords (63 :: r) = none := mKeywordLA_ne (by decide)
    rw [numeralLen_ne (by decide) (by decide), hkw, mName_ne (by decide), mLabel_ne (by decide),
      symFind_ne (by decide), symC_ne (by decide)]
    simp [mLit, wordTok, mName, isIdentStart, optW]
  by_cases hd : isDigit c = true
  · have ht := digit_tab c
    simp only [digitTab, hd, Bool.not_true, Bool.false_or, Bool.and_eq_true, bne_iff_ne, ne_eq,
      Bool.not_eq_true'] at ht
    obtain ⟨⟨⟨⟨⟨⟨⟨⟨⟨-, -⟩, -⟩, -⟩, -⟩, -⟩, -⟩, hi⟩, hsy⟩, hk⟩ := ht
    rw [mLabel_ne h58, mKeywordLA_ne hk, symFind_ne hsy, mName_ne hi, mLit_ne (by simpa using Ne.symm h63),
      wordTok_ne hi h63, symC_ne hsy]
    cases numeralLen (c :: r) <;> simp [optW]
  have hd' : isDigit c = false := by simpa using hd
  rw [numeralLen_ne hd' h46, mLabel_ne h58]
  by_cases hi : isIdentStart c = true
  · have ht := ident_tab c
    simp only [identTab, hi, Bool.not_true, Bool.false_or, Bool.and_eq_true, bne_iff_ne, ne_eq,
      Bool.not_eq_true'] at ht
    have hsy := ht.2
    rw [symFind_ne hsy, symC_ne hsy, mKeywordLA_run]
    simp only [wordTok, mName, hi, if_true, identRun_cons r hi]
    by_cases hk : List.take (spanLen isIdentChar (c :: r)) (c :: r) ∈ Gen.luaKeywords
    · simp [hk, optW]
    · simp [hk, optW]
  have hi' : isIdentStart c = false := by simpa using hi
  have hk : kwStart c = false := by
    have := nonIdent_tab c
    simpa [nonIdentTab, hi'] using this
  rw [mKeywordLA_ne hk, mName_ne hi', mLit_ne (by simpa using Ne.symm h63), wordTok_ne hi' h63, sym_agree hs]
  simp [optW]

/-! ### the state machine on one chunk versus the reference token stream -/

theorem advance_append (st : LexSt) (a b : Bytes) : advance st (a ++ b) = advance (advance st a) b := by
  simp [advance, List.foldl_append]

theorem advance_fields (st : LexSt) (bs : Bytes) :
    (advance st bs).toks = st.toks ∧ (advance st bs).mode = st.mode ∧
    ((advance st bs).line, (advance st bs).col) = posAfter st.line st.col bs := by
  induction bs generalizing st with
  | nil => simp [advance, posAfter]
  | cons b bs ih =>
    have := ih (if b = 10 then { st with line := st.line + 1, col := 0 } else { st with col := st.col + 1 })
    simp only [advance, List.foldl_cons, posAfter] at this ⊢
    by_cases hb : b = 10 <;> simp [hb] at this ⊢ <;> exact this

/-- a state is determined by its four fields -/
theorem LexSt.ext' {a b : LexSt} (h1 : a.toks = b.toks) (h2 : a.line = b.line) (h3 : a.col = b.col)
    (h4 : a.mode = b.mode) : a = b := by
  cases a; cases b; simp_all

/-- the state after a complete token `t` of length `n` read from `s` in normal mode -/
def stepSt (st : LexSt) (t : Tok) (n : Nat) (s : Bytes) : LexSt :=
  { toks := st.toks.push { t with line := st.line, col := st.col },
    line := (posAfter st.line st.col (s.take n)).1, col := (posAfter st.line st.col (s.take n)).2,
    mode := .normal }

theorem advance_eq_stepSt (st st0 : LexSt) (t : Tok) (n : Nat) (s bs : Bytes)
    (hbs : bs = s.take n) (hl : st.line = st0.line) (hc : st.col = st0.col) (hm : st.mode = .normal)
    (ht : st.toks = st0.toks.push { t with line := st0.line, col := st0.col }) :
    advance st bs = stepSt st0 t n s := by
  obtain ⟨h1, h2, h3⟩ := advance_fields st bs
  apply LexSt.ext'
  · rw [h1, ht]; rfl
  · have := congrArg Prod.fst h3; simp only at this; rw [this, hl, hc, hbs]; rfl
  · have := congrArg Prod.snd h3; simp only at this; rw [this, hl, hc, hbs]; rfl
  · rw [h2, hm]; rfl

theorem processLine_succ (shape : List Entry) (fuel : Nat) (st : LexSt) (s : Bytes) :
    processLine shape (fuel + 1) st s =
      match processToken shape st s with
      | .error e => .error e
      | .ok (st', i) => if i = 0 then (if s.isEmpty then .ok st' else .error .lex)
                        else processLine shape fuel st' (s.drop i) := rfl

theorem processLine_nil_normal (shape : List Entry) (fuel : Nat) (st : LexSt) (h : st.mode = .normal) :
    processLine shape (fuel + 1) st [] = .ok st := by
  rw [processLine_succ]
  simp [processToken, h, processToken.normalMatch]

/-- entering a long comment -/
theorem pt_comment_open (shape : List Entry) (st : LexSt) (s : Bytes) (h : st.mode = .normal)
    (h2 : [45, 45, 91, 91].isPrefixOf s = true) :
    processToken shape st s =
      .ok (advance { st with mode := .inComment st.line st.col [45, 45, 91, 91] } (s.take 4), 4) := by
  simp only [processToken, h, h2, if_true]

theorem pt_comment_close (shape : List Entry) (st : LexSt) (s : Bytes) (l c : Nat) (acc : Bytes) (k : Nat)
    (h : st.mode = .inComment l c acc) (h2 : findSub [93, 93] s 0 = some k) :
    processToken shape st s =
      .ok (advance { st with toks := st.toks.push { kind := .comment, data := acc ++ s.take (k + 2), line := l, col := c },
                              mode := .normal } (s.take (k + 2)), k + 2) := by
  simp only [processToken, h, h2]

theorem pt_long_open (shape : List Entry) (st : LexSt) (r : Bytes) (h : st.mode = .normal)
    (h2 : (r.drop (spanLen (· == 61) r)).head? = some 91) :
    processToken shape st (91 :: r) =
      .ok (advance { st with mode := .inLong (List.replicate (spanLen (· == 61) r) 61) st.line st.col [] }
        ((91 :: r).take (spanLen (· == 61) r + 2)), spanLen (· == 61) r + 2) := by
  have h0 : [45, 45, 91, 91].isPrefixOf (91 :: r) = false := by simp [List.isPrefixOf]
  have h3 : (List.drop (1 + spanLen (· == 61) r) (91 :: r)).head? = some 91 := by
    rw [Nat.add_comm, List.drop_succ_cons]; exact h2
  simp only [processToken, h, h0, Bool.false_eq_true, if_false, if_true, h3]

theorem pt_long_close (shape : List Entry) (st : LexSt) (s : Bytes) (l c : Nat) (delim acc : Bytes) (k : Nat)
    (h : st.mode = .inLong delim l c acc) (h2 : findSub ([93] ++ delim ++ [93]) s 0 = some k) :
    processToken shape st s =
      .ok (advance { st with toks := st.toks.push { kind := .string, data := acc ++ s.take k, mlq := some delim, line := l, col := c },
                              mode := .normal } (s.take (k + delim.length + 2)), k + delim.length + 2) := by
  simp only [processToken, h, h2]

theorem pt_str_close (shape : List Entry) (st : LexSt) (s : Bytes) (l c : Nat) (delim : UInt8) (acc acc' : Bytes) (i : Nat)
    (h : st.mode = .inStr delim l c acc) (h2 : strLoop delim (s.length + 1) s acc 0 = .ok (true, acc', i)) :
    processToken shape st s =
      .ok (advance { st with toks := st.toks.push { kind := .string, data := acc', quote := some delim, line := l, col := c },
                              mode := .normal } (s.take i), i) := by
  simp only [processToken, h, h2, if_true]

/-- in normal mode, when no multi-line construct opens, the pattern table decides -/
theorem pt_normal (shape : List Entry) (st : LexSt) (c : UInt8) (r : Bytes) (h : st.mode = .normal)
    (h0 : [45, 45, 91, 91].isPrefixOf (c :: r) = false)
    (hlo : c = 91 → (r.drop (spanLen (· == 61) r)).head? ≠ some 91) :
    processToken shape st (c :: r) =
      if c = 39 ∨ c = 34 then .ok (advance { st with mode := .inStr c st.line st.col [] } ((c :: r).take 1), 1)
      else match matchOne shape (c :: r) with
        | some (k, n) => .ok (advance { st with toks := st.toks.push { kind := k, data := (c :: r).take n, line := st.line, col := st.col } } ((c :: r).take n), n)
        | none => .ok (st, 0) := by
  simp only [processToken, h, h0, Bool.false_eq_true, if_false]
  by_cases hc : c = 91
  · subst hc
    have h3 : ¬ (List.drop (1 + spanLen (· == 61) r) (91 :: r)).head? = some 91 := by
      rw [Nat.add_comm, List.drop_succ_cons]; exact hlo rfl
    simp only [if_true, h3, if_false, processToken.normalMatch, h]
    rfl
  · simp only [hc, if_false, processToken.normalMatch, h]
    rfl

/-! ### the branches of the reference `lexOne` -/

theorem lexOne_longcomment (s : Bytes) (h : [45, 45, 91, 91].isPrefixOf s = true) :
    lexOne s = (findSub [93, 93] (s.drop 4) 0).map fun k =>
      ({ kind := .comment, data := s.take (4 + k + 2) }, 4 + k + 2) := by
  unfold lexOne; rw [if_pos h]

theorem lexOne_longstr (r : Bytes) (h : (r.drop (spanLen (· == 61) r)).head? = some 91) :
    lexOne (91 :: r) =
      (findSub ([93] ++ List.replicate (spanLen (· == 61) r) 61 ++ [93]) ((91 :: r).drop (spanLen (· == 61) r + 2)) 0).map fun k =>
        ({ kind := .string, data := ((91 :: r).drop (spanLen (· == 61) r + 2)).take k,
           mlq := some (List.replicate (spanLen (· == 61) r) 61) },
         spanLen (· == 61) r + 2 + k + spanLen (· == 61) r + 2) := by
  unfold lexOne
  rw [if_neg (by simp [List.isPrefixOf]), if_neg (by simp [List.isPrefixOf])]
  simp only [h, if_true]

theorem lexOne_quote (q : UInt8) (rest : Bytes) (hq : q = 34 ∨ q = 39) :
    lexOne (q :: rest) = (quoted q (rest.length + 1) rest [] 0).map fun vn =>
      ({ kind := .string, data := vn.1, quote := some q }, 1 + vn.2) := by
  have hne : q ≠ 45 ∧ q ≠ 47 ∧ q ≠ 91 := by rcases hq with rfl | rfl <;> decide
  unfold lexOne
  rw [if_neg (by simp [List.isPrefixOf, Ne.symm hne.1]),
    if_neg (by simp [List.isPrefixOf, Ne.symm hne.1, Ne.symm hne.2.1])]
  dsimp only
  split
  · next n hn =>
    split at hn
    · next r' heq =>
      simp only [List.cons.injEq] at heq
      exact absurd heq.1 hne.2.2
    · cases hn
  · rw [if_pos hq]

theorem lexOne_comment_full (s : Bytes) (h0 : [45, 45, 91, 91].isPrefixOf s = false)
    (h : [45, 45].isPrefixOf s = true ∨ [47, 47].isPrefixOf s = true) :
    lexOne s = some ({ kind := .comment, data := s.take (2 + spanLen (· != 10) (s.drop 2)) },
      2 + spanLen (· != 10) (s.drop 2)) := by
  unfold lexOne
  rw [if_neg (by simp [h0]), if_pos h]

theorem lexOne_plain_full (c : UInt8) (r : Bytes) (hq1 : c ≠ 34) (hq2 : c ≠ 39)
    (h0 : [45, 45, 91, 91].isPrefixOf (c :: r) = false)
    (hc1 : [45, 45].isPrefixOf (c :: r) = false) (hc2 : [47, 47].isPrefixOf (c :: r) = false)
    (hlo : c = 91 → (r.drop (spanLen (· == 61) r)).head? ≠ some 91) :
    lexOne (c :: r) =
      (pick (optL .space (mSpace (c :: r)) ++ optL .newline (newlineLen (c :: r)) ++
        optL .number (numeralLen (c :: r)) ++ optL .label (mLabel (c :: r)) ++
        optW (wordTok (c :: r)) ++ symC (c :: r))).map
        (fun kn => ({ kind := kn.1, data := (c :: r).take kn.2 }, kn.2)) := by
  unfold lexOne
  rw [if_neg (by simp [h0]), if_neg (by simp [hc1, hc2])]
  dsimp only
  split
  · next n hn =>
    split at hn
    · next r' heq =>
      simp only [List.cons.injEq] at heq
      obtain ⟨rfl, rfl⟩ := heq
      rw [if_neg (hlo rfl)] at hn
      cases hn
    · cases hn
  · have hq : ¬ (c = 34 ∨ c = 39) := by simp [hq1, hq2]
    rw [if_neg hq]
    have key : ∀ (cands : List (Kind × Nat)),
        (match pick cands with
          | some (k, n) => some (({ kind := k, data := List.take n (c :: r) } : Tok), n)
          | none => none) = (pick cands).map (fun kn => ({ kind := kn.1, data := (c :: r).take kn.2 }, kn.2)) := by
      intro cands; rcases pick cands with _ | ⟨k, n⟩ <;> rfl
    exact key _

/-- outside the multi-line constructs a reference token is its kind plus its source text -/
theorem lexOne_tok_shape (c : UInt8) (r : Bytes) (hq1 : c ≠ 34) (hq2 : c ≠ 39)
    (h0 : [45, 45, 91, 91].isPrefixOf (c :: r) = false)
    (hlo : c = 91 → (r.drop (spanLen (· == 61) r)).head? ≠ some 91) (t : Tok) (n : Nat)
    (h : lexOne (c :: r) = some (t, n)) : t = { kind := t.kind, data := (c :: r).take n } := by
  by_cases hc : [45, 45].isPrefixOf (c :: r) = true ∨ [47, 47].isPrefixOf (c :: r) = true
  · rw [lexOne_comment_full _ h0 hc] at h
    cases h; rfl
  · simp only [not_or, Bool.not_eq_true] at hc
    rw [lexOne_plain_full c r hq1 hq2 h0 hc.1 hc.2 hlo] at h
    generalize pick _ = p at h
    rcases p with _ | ⟨k, m⟩
    · cases h
    · cases h; rfl

/-! ### one reference token = one or two steps of the state machine -/

theorem posAfter_append (l c : Nat) (a b : Bytes) :
    posAfter l c (a ++ b) = posAfter (posAfter l c a).1 (posAfter l c a).2 b := by
  simp [posAfter, List.foldl_append]

/-- open a multi-line construct over `a`, then close it over `b` pushing the token -/
theorem two_step_state (st stA : LexSt) (t : Tok) (n : Nat) (s a b : Bytes) (m : Mode)
    (hl : stA.line = st.line) (hc : stA.col = st.col) (hab : a ++ b = s.take n) (T : Array Tok)
    (hT : T = st.toks.push { t with line := st.line, col := st.col }) :
    advance { advance stA a with toks := T, mode := m } b =
      { stepSt st t n s with mode := m } := by
  obtain ⟨h1, h2, h3⟩ := advance_fields stA a
  generalize hX : ({ advance stA a with toks := T, mode := m } : LexSt) = X
  have hXl : X.line = (advance stA a).line := by subst hX; rfl
  have hXc : X.col = (advance stA a).col := by subst hX; rfl
  have hXt : X.toks = T := by subst hX; rfl
  have hXm : X.mode = m := by subst hX; rfl
  obtain ⟨g1, g2, g3⟩ := advance_fields X b
  have e1 := congrArg Prod.fst h3
  have e2 := congrArg Prod.snd h3
  simp only at e1 e2
  rw [hXl, hXc, e1, e2, hl, hc, ← posAfter_append, hab] at g3
  apply LexSt.ext'
  · rw [g1, hXt, hT]; rfl
  · exact congrArg Prod.fst g3
  · exact congrArg Prod.snd g3
  · rw [g2, hXm]

theorem quoted_pos (q : UInt8) (fuel : Nat) (s acc : Bytes) (n0 : Nat) (v : Bytes) (n : Nat)
    (h : quoted q fuel s acc n0 = some (v, n)) : n0 + 1 ≤ n := by
  induction fuel generalizing s acc n0 with
  | zero => simp [quoted] at h
  | succ f ih =>
    cases s with
    | nil => simp [quoted] at h
    | cons c rest =>
      simp only [quoted] at h
      split at h
      · cases h; omega
      · split at h
        · split at h
          · have := ih _ _ _ h; omega
          · cases h
        · have := ih _ _ _ h; omega

/-! ### the step lemma -/

/-- the fact about string bodies supplied by `C06.decode_agrees` -/
def DecodeAgrees : Prop :=
  ∀ (q : UInt8) (s v : Bytes) (n fuel fuel' : Nat), quoted q fuel s [] 0 = some (v, n) → s.length + 1 ≤ fuel' →
    strLoop q fuel' s [] 0 = .ok (true, v, n)

theorem step_longcomment (st : LexSt) (s : Bytes) (t : Tok) (n : Nat) (hm : st.mode = .normal)
    (hA : [45, 45, 91, 91].isPrefixOf s = true)
    (h : lexOne s = some (t, n)) (fuel : Nat) (hf : s.length + 1 ≤ fuel) :
    ∃ fuel', (s.drop n).length + 1 ≤ fuel' ∧
      processLine Gen.matcherShape fuel st s = processLine Gen.matcherShape fuel' (stepSt st t n s) (s.drop n) := by
  rw [lexOne_longcomment s hA] at h
  cases hk : findSub [93, 93] (s.drop 4) 0 with
  | none => rw [hk] at h; cases h
  | some k =>
    rw [hk] at h
    simp only [Option.map_some, Option.some.injEq, Prod.mk.injEq] at h
    obtain ⟨rfl, rfl⟩ := h
    have hpre := List.isPrefixOf_iff_prefix.mp hA
    have hlen : 4 ≤ s.length := hpre.length_le
    obtain ⟨f, rfl⟩ : ∃ f, fuel = f + 2 := ⟨fuel - 2, by omega⟩
    refine ⟨f, by simp only [List.length_drop]; omega, ?_⟩
    rw [processLine_succ, pt_comment_open _ st s hm hA]
    simp only [Nat.reduceEqDiff, if_false]
    rw [processLine_succ, pt_comment_close _ _ (s.drop 4) st.line st.col [45, 45, 91, 91] k
      (by rw [(advance_fields _ _).2.1]) hk]
    simp only [Nat.add_eq_zero_iff, Nat.reduceEqDiff, and_false, if_false, List.drop_drop]
    have htake : s.take 4 = [45, 45, 91, 91] := by
      obtain ⟨u, rfl⟩ := hpre; rfl
    have hsplit : s.take 4 ++ (s.drop 4).take (k + 2) = s.take (4 + k + 2) := by
      rw [Nat.add_assoc, List.take_add (l := s) (i := 4) (j := k + 2)]
    congr 1
    · exact two_step_state st { st with mode := .inComment st.line st.col [45, 45, 91, 91] } _ (4 + k + 2) s
        (s.take 4) ((s.drop 4).take (k + 2)) .normal rfl rfl
        hsplit _ (by rw [(advance_fields _ _).1, ← htake, hsplit])

theorem step_longstr (st : LexSt) (r : Bytes) (t : Tok) (n : Nat) (hm : st.mode = .normal)
    (hB : (r.drop (spanLen (· == 61) r)).head? = some 91)
    (h : lexOne (91 :: r) = some (t, n)) (fuel : Nat) (hf : (91 :: r).length + 1 ≤ fuel) :
    ∃ fuel', ((91 :: r).drop n).length + 1 ≤ fuel' ∧
      processLine Gen.matcherShape fuel st (91 :: r) =
        processLine Gen.matcherShape fuel' (stepSt st t n (91 :: r)) ((91 :: r).drop n) := by
  rw [lexOne_longstr r hB] at h
  generalize hn0 : spanLen (· == 61) r = n0 at h hB
  have hr : n0 < r.length := Nat.lt_of_not_le fun hle => by
    rw [List.drop_eq_nil_of_le hle] at hB; cases hB
  generalize hs : (91 :: r : Bytes) = s at h hf ⊢
  cases hk : findSub ([93] ++ List.replicate n0 61 ++ [93]) (s.drop (n0 + 2)) 0 with
  | none => rw [hk] at h; cases h
  | some k =>
    rw [hk] at h
    simp only [Option.map_some, Option.some.injEq, Prod.mk.injEq] at h
    obtain ⟨rfl, rfl⟩ := h
    have hlen : n0 + 2 ≤ s.length := by subst hs; simp; omega
    obtain ⟨f, rfl⟩ : ∃ f, fuel = f + 2 := ⟨fuel - 2, by omega⟩
    refine ⟨f, by simp only [List.length_drop]; omega, ?_⟩
    have hopen := pt_long_open Gen.matcherShape st r hm (by rw [hn0]; exact hB)
    rw [hn0, hs] at hopen
    rw [processLine_succ, hopen]
    simp only [Nat.add_eq_zero_iff, Nat.reduceEqDiff, and_false, if_false]
    rw [processLine_succ, pt_long_close _ _ (s.drop (n0 + 2)) st.line st.col (List.replicate n0 61) [] k
      (by rw [(advance_fields _ _).2.1]) hk]
    simp only [Nat.add_eq_zero_iff, Nat.reduceEqDiff, and_false, if_false, List.drop_drop, List.length_replicate]
    have hsplit : s.take (n0 + 2) ++ (s.drop (n0 + 2)).take (k + n0 + 2) = s.take (n0 + 2 + k + n0 + 2) := by
      rw [show n0 + 2 + k + n0 + 2 = (n0 + 2) + (k + n0 + 2) by omega,
        List.take_add (l := s) (i := n0 + 2) (j := k + n0 + 2)]
    rw [show n0 + 2 + (k + n0 + 2) = n0 + 2 + k + n0 + 2 by omega]
    congr 1
    exact two_step_state st { st with mode := .inLong (List.replicate n0 61) st.line st.col [] } _
        (n0 + 2 + k + n0 + 2) s (s.take (n0 + 2)) ((s.drop (n0 + 2)).take (k + n0 + 2)) .normal rfl rfl
        hsplit _ (by rw [(advance_fields _ _).1]; rfl)

theorem step_quote (hdec : DecodeAgrees) (st : LexSt) (q : UInt8) (rest : Bytes) (t : Tok) (n : Nat)
    (hm : st.mode = .normal) (hq : q = 34 ∨ q = 39)
    (h : lexOne (q :: rest) = some (t, n)) (fuel : Nat) (hf : (q :: rest).length + 1 ≤ fuel) :
    ∃ fuel', ((q :: rest).drop n).length + 1 ≤ fuel' ∧
      processLine Gen.matcherShape fuel st (q :: rest) =
        processLine Gen.matcherShape fuel' (stepSt st t n (q :: rest)) ((q :: rest).drop n) := by
  rw [lexOne_quote q rest hq] at h
  cases hqd : quoted q (rest.length + 1) rest [] 0 with
  | none => rw [hqd] at h; cases h
  | some vn =>
    obtain ⟨v, n'⟩ := vn
    rw [hqd] at h
    simp only [Option.map_some, Option.some.injEq, Prod.mk.injEq] at h
    obtain ⟨rfl, rfl⟩ := h
    have hpos := quoted_pos _ _ _ _ _ _ _ hqd
    have hrest : 1 ≤ rest.length := by
      cases rest with
      | nil => simp [quoted] at hqd
      | cons _ _ => simp
    have hstr := hdec q rest v n' _ (rest.length + 1) hqd (Nat.le_refl _)
    have hne : q ≠ 45 ∧ q ≠ 91 := by rcases hq with rfl | rfl <;> decide
    obtain ⟨f, rfl⟩ : ∃ f, fuel = f + 2 := ⟨fuel - 2, by simp at hf; omega⟩
    refine ⟨f, by simp only [List.length_drop, List.length_cons] at hf ⊢; omega, ?_⟩
    rw [processLine_succ, pt_normal _ st q rest hm (by simp [List.isPrefixOf, Ne.symm hne.1])
      (fun h91 => absurd h91 hne.2), if_pos (by rcases hq with rfl | rfl <;> simp)]
    simp only [Nat.succ_ne_zero, if_false, List.drop_succ_cons, List.drop_zero]
    rw [processLine_succ, pt_str_close _ _ rest st.line st.col q [] v n' (by rw [(advance_fields _ _).2.1]) hstr]
    have hn' : n' ≠ 0 := by omega
    simp only [hn', if_false]
    have hsplit : (q :: rest).take 1 ++ rest.take n' = (q :: rest).take (1 + n') := by
      rw [Nat.add_comm 1 n', List.take_succ_cons]; rfl
    rw [show (q :: rest).drop (1 + n') = rest.drop n' by rw [Nat.add_comm 1 n', List.drop_succ_cons]]
    congr 1
    exact two_step_state st { st with mode := .inStr q st.line st.col [] } _ (1 + n') (q :: rest)
        ((q :: rest).take 1) (rest.take n') .normal rfl rfl hsplit _ (by rw [(advance_fields _ _).1])

theorem step_plain (hs : FirstLongest symbolSet) (st : LexSt) (c : UInt8) (r : Bytes) (t : Tok) (n : Nat)
    (hm : st.mode = .normal) (hq1 : c ≠ 34) (hq2 : c ≠ 39)
    (h0 : [45, 45, 91, 91].isPrefixOf (c :: r) = false)
    (hlo : c = 91 → (r.drop (spanLen (· == 61) r)).head? ≠ some 91)
    (h : lexOne (c :: r) = some (t, n)) (hn : n ≠ 0) (fuel : Nat) (hf : (c :: r).length + 1 ≤ fuel) :
    ∃ fuel', ((c :: r).drop n).length + 1 ≤ fuel' ∧
      processLine Gen.matcherShape fuel st (c :: r) =
        processLine Gen.matcherShape fuel' (stepSt st t n (c :: r)) ((c :: r).drop n) := by
  have hcore := core hs c r hq1 hq2 h0 hlo
  rw [h, Option.map_id'] at hcore
  simp only [Option.map_some] at hcore
  have hshape := lexOne_tok_shape c r hq1 hq2 h0 hlo t n h
  obtain ⟨f, rfl⟩ : ∃ f, fuel = f + 1 := ⟨fuel - 1, by omega⟩
  refine ⟨f, by simp only [List.length_drop, List.length_cons] at hf ⊢; omega, ?_⟩
  rw [processLine_succ, pt_normal _ st c r hm h0 hlo, if_neg (by simp [hq1, hq2]), hcore]
  simp only [hn, if_false]
  congr 1
  exact advance_eq_stepSt _ st t n (c :: r) _ rfl rfl rfl hm (by rw [hshape])

theorem token_step (hs : FirstLongest symbolSet) (hdec : DecodeAgrees) (st : LexSt) (s : Bytes) (t : Tok) (n : Nat)
    (hm : st.mode = .normal) (h : lexOne s = some (t, n)) (hn : n ≠ 0) (fuel : Nat) (hf : s.length + 1 ≤ fuel) :
    ∃ fuel', (s.drop n).length + 1 ≤ fuel' ∧
      processLine Gen.matcherShape fuel st s = processLine Gen.matcherShape fuel' (stepSt st t n s) (s.drop n) := by
  by_cases hA : [45, 45, 91, 91].isPrefixOf s = true
  · exact step_longcomment st s t n hm hA h fuel hf
  have hA' : [45, 45, 91, 91].isPrefixOf s = false := Bool.eq_false_iff.mpr hA
  match s with
  | [] => simp [lexOne] at h
  | c :: r =>
    by_cases hB : c = 91 ∧ (r.drop (spanLen (· == 61) r)).head? = some 91
    · obtain ⟨rfl, hB⟩ := hB
      exact step_longstr st r t n hm hB h fuel hf
    by_cases hq : c = 34 ∨ c = 39
    · exact step_quote hdec st c r t n hm hq h fuel hf
    simp only [not_or] at hq
    exact step_plain hs st c r t n hm hq.1 hq.2 hA' (fun h91 hh => hB ⟨h91, hh⟩) h hn fuel hf

/-- the state machine run on one chunk follows the reference token stream -/
theorem run_agrees (hs : FirstLongest symbolSet) (hdec : DecodeAgrees) (fuelS : Nat) (s : Bytes) (st : LexSt)
    (ts : List Tok) (hm : st.mode = .normal) (h : lexAll fuelS s st.line st.col = some ts)
    (fuel : Nat) (hf : s.length + 1 ≤ fuel) :
    ∃ st', processLine Gen.matcherShape fuel st s = .ok st' ∧ st'.mode = .normal ∧
      st'.toks.toList = st.toks.toList ++ ts := by
  induction fuelS generalizing s st ts fuel with
  | zero => simp [lexAll] at h
  | succ fs ih =>
    rw [lexAll] at h
    by_cases he : s.isEmpty = true
    · rw [if_pos he] at h
      cases h
      have : s = [] := by simpa using he
      subst this
      obtain ⟨f, rfl⟩ : ∃ f, fuel = f + 1 := ⟨fuel - 1, by omega⟩
      exact ⟨st, processLine_nil_normal _ f st hm, hm, by simp⟩
    · rw [if_neg he] at h
      cases hlo : lexOne s with
      | none => rw [hlo] at h; cases h
      | some tn =>
        obtain ⟨t, n⟩ := tn
        rw [hlo] at h
        simp only at h
        by_cases hn : n = 0
        · rw [if_pos hn] at h; cases h
        · rw [if_neg hn] at h
          cases hrest : lexAll fs (s.drop n) (posAfter st.line st.col (s.take n)).1
              (posAfter st.line st.col (s.take n)).2 with
          | none => rw [hrest] at h; cases h
          | some rest =>
            rw [hrest] at h
            simp only [Option.map_some, Option.some.injEq] at h
            subst h
            obtain ⟨fuel', hf', hstep⟩ := token_step hs hdec st s t n hm hlo hn fuel hf
            obtain ⟨st', h1, h2, h3⟩ := ih (s.drop n) (stepSt st t n s) rest rfl hrest fuel' hf'
            refine ⟨st', hstep.trans h1, h2, ?_⟩
            rw [h3]
            simp [stepSt]

theorem lex_agrees (hs : FirstLongest symbolSet) (hdec : DecodeAgrees) (src : Bytes) (ts : List Tok)
    (h : lexSource src = some ts) : lex [src] = .ok ts := by
  obtain ⟨st', h1, h2, h3⟩ := run_agrees hs hdec (src.length + 1) src {} ts rfl h (src.length + 2) (by omega)
  simp only [lex, processLines, processLinesFrom, h1, h2]
  simpa using h3

/-! ### matchers look no further than the first line feed -/

theorem spanLen_lf (p : UInt8 → Bool) (hp : p 10 = false) (a rest : Bytes) :
    spanLen p (a ++ 10 :: rest) = spanLen p a := by
  induction a with
  | nil => simp [spanLen, hp]
  | cons x a ih =>
    simp only [spanLen, List.cons_append, List.takeWhile_cons] at ih ⊢
    by_cases hx : p x = true <;> simp [hx, ih]

theorem spanLen_le (p : UInt8 → Bool) (a : Bytes) : spanLen p a ≤ a.length :=
  (List.takeWhile_prefix (l := a) p).length_le

theorem drop_span_app (p : UInt8 → Bool) (a x : Bytes) :
    (a ++ x).drop (spanLen p a) = a.drop (spanLen p a) ++ x :=
  List.drop_append_of_le_length (spanLen_le p a)

/-- a matcher whose verdict on `a ++ "\n" ++ rest` does not depend on `rest` -/
def LocalM (m : Bytes → Option Nat) : Prop :=
  ∀ a rest : Bytes, m (a ++ 10 :: rest) = m (a ++ [10])

/-- a matcher never claims more than there is -/
def BoundedM (m : Bytes → Option Nat) : Prop := ∀ s n, m s = some n → n ≤ s.length

theorem mLineComment_local (c0 : UInt8) (hc : c0 ≠ 10) : LocalM (mLineComment c0) := by
  intro a rest
  match a with
  | [] => cases rest <;> simp [mLineComment, Ne.symm hc]
  | [x] => simp [mLineComment, Ne.symm hc]
  | x :: y :: a' =>
    simp only [List.cons_append, mLineComment]
    rw [spanLen_lf _ (by decide), spanLen_lf _ (by decide)]

theorem mLineComment_bounded (c0 : UInt8) : BoundedM (mLineComment c0) := by
  intro s n h
  match s with
  | [] => simp [mLineComment] at h
  | [x] => simp [mLineComment] at h
  | x :: y :: a' =>
    simp only [mLineComment] at h
    split at h
    · cases h; have := spanLen_le (· != 10) a'; simp; omega
    · cases h

theorem mSpace_local : LocalM mSpace := by
  intro a rest
  simp only [mSpace]
  rw [spanLen_lf _ (by decide), show a ++ [10] = a ++ 10 :: [] from rfl, spanLen_lf _ (by decide)]

theorem mSpace_bounded : BoundedM mSpace := by
  intro s n h
  simp only [mSpace] at h
  split at h
  · cases h
  · cases h; exact spanLen_le _ _

theorem spanLen_lf' (p : UInt8 → Bool) (hp : p 10 = false) (a : Bytes) :
    spanLen p (a ++ [10]) = spanLen p a := spanLen_lf p hp a []

/-- a line feed occurs in the literal at most as its last byte -/
def lfOnlyLast : Bytes → Bool
  | [] => true
  | [_] => true
  | x :: y :: rest => x != 10 && lfOnlyLast (y :: rest)

theorem pref_local (l : Bytes) (hl : lfOnlyLast l = true) (a rest : Bytes) :
    l.isPrefixOf (a ++ 10 :: rest) = l.isPrefixOf (a ++ [10]) := by
  induction l generalizing a with
  | nil => simp
  | cons p l' ih =>
    cases a with
    | nil =>
      cases l' with
      | nil => simp [List.isPrefixOf]
      | cons y l'' =>
        simp only [lfOnlyLast, Bool.and_eq_true, bne_iff_ne, ne_eq] at hl
        simp [List.isPrefixOf, hl.1]
    | cons x a' =>
      have hl' : lfOnlyLast l' = true := by
        cases l' with
        | nil => rfl
        | cons y l'' => simp only [lfOnlyLast, Bool.and_eq_true] at hl; exact hl.2
      simp only [List.cons_append, List.isPrefixOf, ih hl' a']

theorem mLit_local (l : Bytes) (hl : lfOnlyLast l = true) : LocalM (mLit l) := by
  intro a rest
  simp only [mLit, pref_local l hl]

theorem mLit_bounded (l : Bytes) : BoundedM (mLit l) := by
  intro s n h
  simp only [mLit] at h
  split at h
  · next hc => cases h; exact (List.isPrefixOf_iff_prefix.mp hc.1).length_le
  · cases h

theorem mRadix_local (p1 p2 : UInt8) (dig : UInt8 → Bool) (h1 : p1 ≠ 10) (h2 : p2 ≠ 10) (hd : dig 10 = false) :
    LocalM (mRadix p1 p2 dig) := by
  intro a rest
  match a with
  | [] => cases rest <;> simp [mRadix]
  | [z] => simp [mRadix, Ne.symm h1, Ne.symm h2]
  | z :: x :: a' =>
    simp only [List.cons_append, mRadix, spanLen_lf _ hd, drop_span_app]
    generalize a'.drop (spanLen dig a') = a2
    cases a2 with
    | nil => simp
    | cons d a3 => simp only [List.cons_append, spanLen_lf _ hd]

theorem mRadix_bounded (p1 p2 : UInt8) (dig : UInt8 → Bool) : BoundedM (mRadix p1 p2 dig) := by
  intro s n h
  match s with
  | [] => simp [mRadix] at h
  | [_] => simp [mRadix] at h
  | z :: x :: r =>
    simp only [mRadix] at h
    have h1 := spanLen_le dig r
    split at h
    · split at h
      · cases h
      · split at h
        · next d r3 heq =>
          have h2 := spanLen_le dig r3
          have h3 : (r.drop (spanLen dig r)).length = r3.length + 1 := by rw [heq]; rfl
          simp only [List.length_drop] at h3
          split at h <;> (cases h; simp only [List.length_cons]; omega)
        · cases h; simp only [List.length_cons]; omega
    · cases h

theorem mRadixFrac_local (p1 p2 : UInt8) (dig : UInt8 → Bool) (h1 : p1 ≠ 10) (h2 : p2 ≠ 10) (hd : dig 10 = false) :
    LocalM (mRadixFrac p1 p2 dig) := by
  intro a rest
  match a with
  | [] => match rest with
    | [] => simp [mRadixFrac]
    | [_] => simp [mRadixFrac]
    | _ :: _ :: _ => simp [mRadixFrac]
  | [z] => cases rest <;> simp [mRadixFrac, Ne.symm h1, Ne.symm h2]
  | [z, x] => simp [mRadixFrac]
  | z :: x :: d :: a' =>
    simp only [List.cons_append, mRadixFrac, spanLen_lf _ hd]

theorem mRadixFrac_bounded (p1 p2 : UInt8) (dig : UInt8 → Bool) : BoundedM (mRadixFrac p1 p2 dig) := by
  intro s n h
  match s with
  | [] => simp [mRadixFrac] at h
  | [_] => simp [mRadixFrac] at h
  | [_, _] => simp [mRadixFrac] at h
  | z :: x :: d :: r =>
    simp only [mRadixFrac] at h
    have h1 := spanLen_le dig r
    split at h
    · split at h
      · cases h
      · cases h; simp only [List.length_cons]; omega
    · cases h

theorem expLen_local (a rest : Bytes) : expLen (a ++ 10 :: rest) = expLen (a ++ [10]) := by
  have hd : isDigit 10 = false := by decide
  match a with
  | [] => simp [expLen]
  | [e] => simp [expLen, spanLen, hd]
  | e :: m :: a' =>
    simp only [List.cons_append, expLen]
    by_cases hm : m = 45
    · simp only [hm, if_true, spanLen_lf _ hd]
    · simp only [hm, if_false, ← List.cons_append, spanLen_lf _ hd]

theorem expLen_le (s : Bytes) : expLen s ≤ s.length := by
  match s with
  | [] => simp [expLen]
  | [e] => simp [expLen, spanLen]
  | e :: m :: r =>
    simp only [expLen]
    have h1 := spanLen_le isDigit r
    have h2 := spanLen_le isDigit (m :: r)
    simp only [List.length_cons] at h2 ⊢
    by_cases hm : m = 45
    · simp only [hm, if_true]; split <;> (try split) <;> omega
    · simp only [hm, if_false]; split <;> (try split) <;> omega

/-- fraction and exponent after the integer digits of a decimal numeral -/
def fracPart (rest : Bytes) : Nat :=
  match rest with
  | d :: r => if d = 46 ∧ r.head? ≠ some 46 then 1 + spanLen isDigit r else 0
  | [] => 0

def tailLen (rest : Bytes) : Nat := fracPart rest + expLen (rest.drop (fracPart rest))

theorem mDecimal_eq (s : Bytes) : mDecimal s =
    if spanLen isDigit s = 0 then none else some (spanLen isDigit s + tailLen (s.drop (spanLen isDigit s))) := by
  simp only [mDecimal, tailLen, fracPart, Nat.add_assoc]
  rfl

theorem tailLen_local (a rest : Bytes) : tailLen (a ++ 10 :: rest) = tailLen (a ++ [10]) := by
  have hd : isDigit 10 = false := by decide
  match a with
  | [] =>
    have h1 : ∀ x : Bytes, fracPart (10 :: x) = 0 := fun x => by simp [fracPart]
    simp only [tailLen, List.nil_append, h1, List.drop_zero]
    exact congrArg _ (expLen_local [] rest)
  | [d] =>
    by_cases h : d = 46
    · have h1 : ∀ x : Bytes, fracPart (d :: 10 :: x) = 1 := fun x => by simp [fracPart, h, spanLen, hd]
      simp only [tailLen, List.cons_append, List.nil_append, h1, List.drop_succ_cons, List.drop_zero]
      exact congrArg _ (expLen_local [] rest)
    · have h1 : ∀ x : Bytes, fracPart (d :: 10 :: x) = 0 := fun x => by simp [fracPart, h]
      simp only [tailLen, List.cons_append, List.nil_append, h1, List.drop_zero]
      exact congrArg _ (expLen_local [d] rest)
  | d :: y :: a3 =>
    by_cases h : d = 46 ∧ some y ≠ some 46
    · have h1 : ∀ x : Bytes, fracPart (d :: y :: a3 ++ 10 :: x) = 1 + spanLen isDigit (y :: a3) := fun x => by
        simp only [fracPart, List.cons_append, List.head?_cons, h, ne_eq, not_false_eq_true, and_self, if_true]
        rw [← List.cons_append, spanLen_lf _ hd]
      have h2 : ∀ x : Bytes, (d :: y :: a3 ++ 10 :: x).drop (1 + spanLen isDigit (y :: a3)) =
          (y :: a3).drop (spanLen isDigit (y :: a3)) ++ 10 :: x := fun x => by
        rw [Nat.add_comm 1, List.cons_append, List.drop_succ_cons, drop_span_app]
      simp only [tailLen, h1, h2]
      exact congrArg _ (expLen_local _ rest)
    · have h1 : ∀ x : Bytes, fracPart (d :: y :: a3 ++ 10 :: x) = 0 := fun x => by
        simp only [fracPart, List.cons_append, List.head?_cons, h, if_false]
      simp only [tailLen, h1, List.drop_zero]
      exact congrArg _ (expLen_local _ rest)

theorem tailLen_le (s : Bytes) : tailLen s ≤ s.length := by
  have h3 := expLen_le (s.drop (fracPart s))
  simp only [List.length_drop] at h3
  have : fracPart s ≤ s.length := by
    match s with
    | [] => simp [fracPart]
    | d :: r =>
      simp only [fracPart]
      have := spanLen_le isDigit r
      split <;> simp only [List.length_cons] <;> omega
  simp only [tailLen]; omega

theorem mDecimal_local : LocalM mDecimal := by
  intro a rest
  have hd : isDigit 10 = false := by decide
  simp only [mDecimal_eq, spanLen_lf _ hd, drop_span_app, tailLen_local]

theorem mDecimal_bounded : BoundedM mDecimal := by
  intro s n h
  rw [mDecimal_eq] at h
  split at h
  · cases h
  · cases h
    have h1 := spanLen_le isDigit s
    have h2 := tailLen_le (s.drop (spanLen isDigit s))
    simp only [List.length_drop] at h2
    omega

theorem mDotDecimal_local : LocalM mDotDecimal := by
  intro a rest
  have hd : isDigit 10 = false := by decide
  match a with
  | [] => simp [mDotDecimal]
  | d :: a' =>
    simp only [List.cons_append, mDotDecimal, spanLen_lf _ hd, drop_span_app, expLen_local]

theorem mDotDecimal_bounded : BoundedM mDotDecimal := by
  intro s n h
  match s with
  | [] => simp [mDotDecimal] at h
  | d :: r =>
    simp only [mDotDecimal] at h
    have h1 := spanLen_le isDigit r
    have h2 := expLen_le (r.drop (spanLen isDigit r))
    simp only [List.length_drop] at h2
    split at h
    · split at h
      · cases h
      · cases h; simp only [List.length_cons]; omega
    · cases h

theorem mLabel_local : LocalM mLabel := by
  intro a rest
  have hd : isIdentChar 10 = false := by decide
  match a with
  | [] => match rest with
    | [] => simp [mLabel]
    | [_] => simp [mLabel]
    | _ :: _ :: _ => simp [mLabel]
  | [x] => cases rest <;> simp [mLabel]
  | [x, y] => simp [mLabel, isIdentStart]
  | x :: y :: c :: a' =>
    simp only [List.cons_append, mLabel, spanLen_lf _ hd, drop_span_app]
    generalize a'.drop (spanLen isIdentChar a') = a2
    match a2 with
    | [] => cases rest <;> simp
    | [u] => simp
    | u :: v :: a3 => simp

theorem mLabel_bounded : BoundedM mLabel := by
  intro s n h
  match s with
  | [] => simp [mLabel] at h
  | [_] => simp [mLabel] at h
  | [_, _] => simp [mLabel] at h
  | x :: y :: c :: r =>
    simp only [mLabel] at h
    split at h
    · split at h
      · next u v w heq =>
        have h3 : (r.drop (spanLen isIdentChar r)).length = w.length + 2 := by rw [heq]; rfl
        simp only [List.length_drop] at h3
        split at h
        · cases h; simp only [List.length_cons]; omega
        · cases h
      · cases h
    · cases h

theorem mName_local : LocalM mName := by
  intro a rest
  have hd : isIdentChar 10 = false := by decide
  match a with
  | [] => simp [mName, isIdentStart]
  | c :: a' => simp only [List.cons_append, mName, spanLen_lf _ hd]

theorem mName_bounded : BoundedM mName := by
  intro s n h
  match s with
  | [] => simp [mName] at h
  | c :: r =>
    simp only [mName] at h
    have := spanLen_le isIdentChar r
    split at h
    · cases h; simp only [List.length_cons]; omega
    · cases h

theorem find?_congr' {α : Type} {l : List α} {p q : α → Bool} (h : ∀ x ∈ l, p x = q x) :
    l.find? p = l.find? q := by
  induction l with
  | nil => rfl
  | cons x l ih =>
    simp only [List.find?_cons, h x (by simp)]
    rw [ih (fun y hy => h y (by simp [hy]))]

/-- the keyword predicate (prefix plus look-ahead) is local for a keyword without line feed -/
theorem kwPred_local (kw : Bytes) (hk : kw.all (· != 10) = true) (a rest : Bytes) :
    (kw.isPrefixOf (a ++ 10 :: rest) && !(((a ++ 10 :: rest).drop kw.length).head?.map isIdentChar).getD false) =
    (kw.isPrefixOf (a ++ [10]) && !(((a ++ [10]).drop kw.length).head?.map isIdentChar).getD false) := by
  induction kw generalizing a with
  | nil => cases a <;> simp
  | cons p kw' ih =>
    simp only [List.all_cons, Bool.and_eq_true, bne_iff_ne, ne_eq] at hk
    cases a with
    | nil =>
      have : (p == 10) = false := by simpa using hk.1
      simp [List.isPrefixOf, this]
    | cons x a' =>
      simp only [List.cons_append, List.isPrefixOf, List.length_cons, List.drop_succ_cons, Bool.and_assoc]
      rw [ih hk.2 a']

theorem kw_noLF : ∀ kw ∈ Gen.matcherKeywords, kw.all (· != 10) = true := by decide +kernel

theorem mKeywordLA_local : LocalM (mKeywordLA Gen.matcherKeywords) := by
  intro a rest
  simp only [mKeywordLA]
  congr 1
  apply find?_congr'
  intro kw hkw
  exact kwPred_local kw (kw_noLF kw hkw) a rest

theorem mKeywordLA_bounded (kws : List Bytes) : BoundedM (mKeywordLA kws) := by
  intro s n h
  simp only [mKeywordLA, Option.map_eq_some_iff] at h
  obtain ⟨kw, hf, rfl⟩ := h
  have := List.find?_some hf
  simp only [Bool.and_eq_true] at this
  exact (List.isPrefixOf_iff_prefix.mp this.1).length_le

theorem sym_lfOnlyLast : ∀ l ∈ symbolSet, lfOnlyLast l = true := by decide +kernel

theorem symFind_local (a rest : Bytes) :
    symbolSet.find? (fun l => l.isPrefixOf (a ++ 10 :: rest)) = symbolSet.find? (fun l => l.isPrefixOf (a ++ [10])) := by
  apply find?_congr'
  intro l hl
  exact pref_local l (sym_lfOnlyLast l hl) a rest

theorem matchOne_local (a rest : Bytes) :
    matchOne Gen.matcherShape (a ++ 10 :: rest) = matchOne Gen.matcherShape (a ++ [10]) := by
  simp only [matchOne_shape]
  rw [mLineComment_local 45 (by decide) a rest, mLineComment_local 47 (by decide) a rest, mSpace_local a rest,
    mLit_local [13, 10] (by decide) a rest, mLit_local [10] (by decide) a rest, mLit_local [13] (by decide) a rest,
    mRadix_local 120 88 isHexDigit (by decide) (by decide) (by decide) a rest,
    mRadixFrac_local 120 88 isHexDigit (by decide) (by decide) (by decide) a rest,
    mRadix_local 98 66 isBinDigit (by decide) (by decide) (by decide) a rest,
    mRadixFrac_local 98 66 isBinDigit (by decide) (by decide) (by decide) a rest,
    mDecimal_local a rest, mDotDecimal_local a rest, mLabel_local a rest, mKeywordLA_local a rest,
    symFind_local a rest, mName_local a rest, mLit_local [63] (by decide) a rest]

theorem orK_bound {k : Kind} {o : Option Nat} {rest : Option (Kind × Nat)} {len : Nat}
    (ho : ∀ n, o = some n → n ≤ len) (hr : ∀ kn, rest = some kn → kn.2 ≤ len) :
    ∀ kn, orK k o rest = some kn → kn.2 ≤ len := by
  intro kn h
  cases o with
  | none => exact hr kn h
  | some n => simp only [orK_some, Option.some.injEq] at h; subst h; exact ho n rfl

theorem matchOne_bounded (s : Bytes) (kn : Kind × Nat) (h : matchOne Gen.matcherShape s = some kn) :
    kn.2 ≤ s.length := by
  rw [matchOne_shape] at h
  revert kn
  refine orK_bound (mLineComment_bounded _ s) ?_
  refine orK_bound (mLineComment_bounded _ s) ?_
  refine orK_bound (mSpace_bounded s) ?_
  refine orK_bound (mLit_bounded _ s) ?_
  refine orK_bound (mLit_bounded _ s) ?_
  refine orK_bound (mLit_bounded _ s) ?_
  refine orK_bound (mRadix_bounded _ _ _ s) ?_
  refine orK_bound (mRadixFrac_bounded _ _ _ s) ?_
  refine orK_bound (mRadix_bounded _ _ _ s) ?_
  refine orK_bound (mRadixFrac_bounded _ _ _ s) ?_
  refine orK_bound (mDecimal_bounded s) ?_
  refine orK_bound (mDotDecimal_bounded s) ?_
  refine orK_bound (mLabel_bounded s) ?_
  refine orK_bound (mKeywordLA_bounded _ s) ?_
  intro kn h
  cases hf : symbolSet.find? (fun l => l.isPrefixOf s) with
  | some l =>
    rw [hf] at h
    simp only [Option.map_some, Option.some_or, Option.some.injEq] at h
    subst h
    have := List.find?_some hf
    exact (List.isPrefixOf_iff_prefix.mp this).length_le
  | none =>
    rw [hf] at h
    simp only [Option.map_none, Option.none_or] at h
    revert kn
    refine orK_bound (mName_bounded s) ?_
    refine orK_bound (mLit_bounded _ s) ?_
    intro kn h; cases h

/-! ### chunks: escapes and the string loop -/

/-- empty, or ending in a line feed -/
def LFend (s : Bytes) : Prop := s = [] ∨ ∃ a, s = a ++ [10]

theorem LFend_drop {s : Bytes} (h : LFend s) (n : Nat) : LFend (s.drop n) := by
  rcases h with rfl | ⟨a, rfl⟩
  · simp [LFend]
  · by_cases hn : n ≤ a.length
    · right; exact ⟨a.drop n, by rw [List.drop_append_of_le_length hn]⟩
    · left; apply List.drop_eq_nil_of_le; simp; omega

theorem LFend_tail {c : UInt8} {s : Bytes} (h : LFend (c :: s)) : LFend s := by
  have := LFend_drop h 1; simpa using this

theorem escapeAt_bounds {rest bs : Bytes} {n : Nat} (h : escapeAt rest = some (bs, n)) :
    1 ≤ n ∧ n ≤ 1 + rest.length := by
  unfold escapeAt at h
  have h1 := spanLen_le isDigit rest
  simp only at h
  split at h
  · split at h
    · cases h
    · cases h; omega
  · split at h
    · next x h1 h2 t =>
      simp only [List.length_cons]
      split at h
      · cases h; omega
      · split at h <;> (cases h; omega)
    · next x t _ =>
      simp only [List.length_cons]
      split at h <;> (cases h; omega)
    · cases h; omega

theorem escapeAt_local (a rest : Bytes) : escapeAt (a ++ 10 :: rest) = escapeAt (a ++ [10]) := by
  have hd : isDigit 10 = false := by decide
  have hnd : min 3 (spanLen isDigit a) ≤ a.length := Nat.le_trans (Nat.min_le_right _ _) (spanLen_le _ _)
  unfold escapeAt
  simp only [spanLen_lf _ hd]
  rw [show a ++ 10 :: rest = a ++ (10 :: rest) from rfl, List.take_append_of_le_length hnd,
    List.take_append_of_le_length hnd]
  split
  · rfl
  · match a with
    | [] => match rest with
      | [] => simp
      | [_] => simp
      | _ :: _ :: _ => simp
    | [x] => cases rest <;> simp [isHexDigit, isDigit]
    | [x, y] => simp [isHexDigit, isDigit]
    | x :: y :: z :: a' => simp

theorem strLoop_fuel (delim : UInt8) (f1 f2 : Nat) (s acc : Bytes) (i : Nat)
    (h1 : s.length + 1 ≤ f1) (h2 : s.length + 1 ≤ f2) :
    strLoop delim f1 s acc i = strLoop delim f2 s acc i := by
  induction f1 generalizing f2 s acc i with
  | zero => omega
  | succ g1 ih =>
    obtain ⟨g2, rfl⟩ : ∃ g2, f2 = g2 + 1 := ⟨f2 - 1, by omega⟩
    cases s with
    | nil => simp [strLoop]
    | cons c rest =>
      simp only [strLoop]
      simp only [List.length_cons] at h1 h2
      split
      · rfl
      · split
        · cases he : escapeAt rest with
          | none => rfl
          | some bn =>
            obtain ⟨bs, n⟩ := bn
            have := (escapeAt_bounds he).1
            simp only
            apply ih <;> simp only [List.length_drop, List.length_cons] <;> omega
        · apply ih <;> omega

/-- the string loop with its canonical fuel -/
def sl (delim : UInt8) (s acc : Bytes) (i : Nat) : Except Err (Bool × Bytes × Nat) :=
  strLoop delim (s.length + 1) s acc i

theorem sl_nil (delim : UInt8) (acc : Bytes) (i : Nat) : sl delim [] acc i = .ok (false, acc, i) := rfl

theorem sl_cons (delim c : UInt8) (rest acc : Bytes) (i : Nat) :
    sl delim (c :: rest) acc i =
      if c = delim then .ok (true, acc, i + 1)
      else if c = 92 then
        match escapeAt rest with
        | none => .error .value
        | some (bs, n) => sl delim ((c :: rest).drop n) (acc ++ bs) (i + n)
      else sl delim rest (acc ++ [c]) (i + 1) := by
  show strLoop delim ((rest.length + 1) + 1) (c :: rest) acc i = _
  rw [strLoop]
  split
  · rfl
  · split
    · cases he : escapeAt rest with
      | none => rfl
      | some bn =>
        obtain ⟨bs, n⟩ := bn
        have := (escapeAt_bounds he).1
        simp only
        apply strLoop_fuel <;> simp only [List.length_drop, List.length_cons] <;> omega
    · rfl

/-- index bookkeeping of the string loop -/
theorem sl_bounds_aux (delim : UInt8) (n : Nat) : ∀ (s acc : Bytes) (i : Nat) (b : Bool) (acc' : Bytes) (i' : Nat),
    s.length ≤ n → sl delim s acc i = .ok (b, acc', i') →
    i ≤ i' ∧ i' ≤ i + s.length ∧ (b = false → i' = i + s.length) ∧ (s ≠ [] → i < i') := by
  induction n with
  | zero =>
    intro s acc i b acc' i' hn h
    have : s = [] := List.length_eq_zero_iff.mp (by omega)
    subst this
    rw [sl_nil] at h; cases h; simp
  | succ n ih =>
    intro s acc i b acc' i' hn h
    cases s with
    | nil => rw [sl_nil] at h; cases h; simp
    | cons c rest =>
      rw [sl_cons] at h
      simp only [List.length_cons] at hn ⊢
      split at h
      · cases h; simp
      · split at h
        · cases he : escapeAt rest with
          | none => rw [he] at h; cases h
          | some bn =>
            obtain ⟨bs, m⟩ := bn
            rw [he] at h
            obtain ⟨hm1, hm2⟩ := escapeAt_bounds he
            simp only at h
            have hl : ((c :: rest).drop m).length = rest.length + 1 - m := by simp
            have := ih _ _ _ _ _ _ (by omega) h
            exact ⟨by omega, by omega, fun hb => by have := this.2.2.1 hb; omega, fun _ => by omega⟩
        · have := ih _ _ _ _ _ _ (by omega) h
          exact ⟨by omega, by omega, fun hb => by have := this.2.2.1 hb; omega, fun _ => by omega⟩

theorem sl_bounds {delim : UInt8} {s acc : Bytes} {i : Nat} {b : Bool} {acc' : Bytes} {i' : Nat}
    (h : sl delim s acc i = .ok (b, acc', i')) :
    i ≤ i' ∧ i' ≤ i + s.length ∧ (b = false → i' = i + s.length) ∧ (s ≠ [] → i < i') :=
  sl_bounds_aux delim s.length s acc i b acc' i' (Nat.le_refl _) h

def shiftR (j : Nat) : Except Err (Bool × Bytes × Nat) → Except Err (Bool × Bytes × Nat)
  | .error e => .error e
  | .ok (b, acc, i) => .ok (b, acc, i + j)

theorem strLoop_shift (delim : UInt8) (f : Nat) (s acc : Bytes) (i j : Nat) :
    strLoop delim f s acc (i + j) = shiftR j (strLoop delim f s acc i) := by
  induction f generalizing s acc i with
  | zero => simp [strLoop, shiftR]
  | succ f ih =>
    cases s with
    | nil => simp [strLoop, shiftR]
    | cons c rest =>
      simp only [strLoop]
      split
      · simp [shiftR]; omega
      · split
        · cases escapeAt rest with
          | none => rfl
          | some bn =>
            obtain ⟨bs, n⟩ := bn
            simp only
            rw [show i + j + n = i + n + j by omega, ih]
        · rw [show i + j + 1 = i + 1 + j by omega, ih]

theorem sl_shift (delim : UInt8) (s acc : Bytes) (j : Nat) :
    sl delim s acc j = shiftR j (sl delim s acc 0) := by
  have := strLoop_shift delim (s.length + 1) s acc 0 j
  simpa [sl] using this

/-- continue the string loop on the next chunk if the string is still open -/
def contR (delim : UInt8) (rest : Bytes) : Except Err (Bool × Bytes × Nat) → Except Err (Bool × Bytes × Nat)
  | .error e => .error e
  | .ok (true, acc, i) => .ok (true, acc, i)
  | .ok (false, acc, i) => sl delim rest acc i

theorem sl_chunk_aux (delim : UInt8) (rest : Bytes) (n : Nat) : ∀ (s acc : Bytes) (i : Nat), s.length ≤ n → LFend s →
    sl delim (s ++ rest) acc i = contR delim rest (sl delim s acc i) := by
  induction n with
  | zero =>
    intro s acc i hn _
    have : s = [] := List.length_eq_zero_iff.mp (by omega)
    subst this
    simp [sl_nil, contR]
  | succ n ih =>
    intro s acc i hn hs
    cases s with
    | nil => simp [sl_nil, contR]
    | cons c s' =>
      simp only [List.length_cons] at hn
      rw [List.cons_append, sl_cons, sl_cons]
      split
      · rfl
      · split
        · next hc =>
          have hs' := LFend_tail hs
          rcases hs' with rfl | ⟨a, rfl⟩
          · rcases hs with h | ⟨a, h⟩
            · cases h
            · exfalso
              have := congrArg List.getLast? h
              simp [hc] at this
          · rw [List.append_assoc, List.singleton_append, escapeAt_local]
            cases he : escapeAt (a ++ [10]) with
            | none => rfl
            | some bn =>
              obtain ⟨bs, m⟩ := bn
              obtain ⟨hm1, hm2⟩ := escapeAt_bounds he
              simp only
              have hle : m ≤ (c :: (a ++ [10])).length := by simp only [List.length_cons]; omega
              rw [show c :: (a ++ 10 :: rest) = (c :: (a ++ [10])) ++ rest by simp,
                List.drop_append_of_le_length hle]
              apply ih
              · simp only [List.length_drop, List.length_cons]; omega
              · exact LFend_drop hs m
        · exact ih _ _ _ (by omega) (LFend_tail hs)

theorem sl_chunk (delim : UInt8) (s rest acc : Bytes) (i : Nat) (hs : LFend s) :
    sl delim (s ++ rest) acc i = contR delim rest (sl delim s acc i) :=
  sl_chunk_aux delim rest s.length s acc i (Nat.le_refl _) hs

/-! ### chunks: searching for a closing bracket -/

theorem findSub_shift (pat s : Bytes) (i j : Nat) :
    findSub pat s (i + j) = (findSub pat s i).map (· + j) := by
  induction s generalizing i with
  | nil => simp only [findSub]; split <;> simp
  | cons c rest ih =>
    simp only [findSub]
    split
    · simp
    · rw [show i + j + 1 = i + 1 + j by omega, ih]

theorem findSub_bounds {pat s : Bytes} {i k : Nat} (h : findSub pat s i = some k) :
    i ≤ k ∧ k - i + pat.length ≤ s.length := by
  induction s generalizing i with
  | nil =>
    simp only [findSub] at h
    split at h
    · next hp =>
      cases h
      have : pat = [] := by simpa using hp
      simp [this]
    · cases h
  | cons c rest ih =>
    simp only [findSub] at h
    split at h
    · next hp =>
      cases h
      have := (List.isPrefixOf_iff_prefix.mp hp).length_le
      exact ⟨Nat.le_refl _, by omega⟩
    · have := ih h
      simp only [List.length_cons]; omega

theorem pref_local' (pat : Bytes) (hp : lfOnlyLast pat = true) (s rest : Bytes) (hs : LFend s) (hne : s ≠ []) :
    pat.isPrefixOf (s ++ rest) = pat.isPrefixOf s := by
  rcases hs with rfl | ⟨a, rfl⟩
  · exact absurd rfl hne
  · rw [List.append_assoc, List.singleton_append]; exact pref_local pat hp a rest

theorem findSub_chunk (pat : Bytes) (hp : lfOnlyLast pat = true) (hne : pat ≠ []) (s rest : Bytes) (i : Nat)
    (hs : LFend s) :
    findSub pat (s ++ rest) i =
      match findSub pat s i with
      | some k => some k
      | none => findSub pat rest (i + s.length) := by
  induction s generalizing i with
  | nil =>
    have : pat.isEmpty = false := by cases pat <;> simp_all
    simp [findSub, this]
  | cons c s' ih =>
    rw [List.cons_append, findSub, findSub, ← List.cons_append, pref_local' pat hp (c :: s') rest hs (by simp)]
    split
    · rfl
    · rw [ih _ (LFend_tail hs)]
      simp only [List.length_cons]
      rw [show i + 1 + s'.length = i + (s'.length + 1) by omega]

theorem lfOnlyLast_of_all (l : Bytes) (h : l.all (· != 10) = true) : lfOnlyLast l = true := by
  induction l with
  | nil => rfl
  | cons x l ih =>
    simp only [List.all_cons, Bool.and_eq_true] at h
    cases l with
    | nil => rfl
    | cons y l' => simp only [lfOnlyLast, Bool.and_eq_true]; exact ⟨h.1, ih h.2⟩

/-! ### one step of the state machine on a line versus on the line followed by more text -/

theorem advance_eq (st : LexSt) (bs : Bytes) :
    advance st bs = { st with line := (posAfter st.line st.col bs).1, col := (posAfter st.line st.col bs).2 } := by
  obtain ⟨h1, h2, h3⟩ := advance_fields st bs
  apply LexSt.ext'
  · exact h1
  · exact congrArg Prod.fst h3
  · exact congrArg Prod.snd h3
  · exact h2

theorem take_len_add (s rest : Bytes) (i : Nat) : (s ++ rest).take (s.length + i) = s ++ rest.take i := by
  induction s with
  | nil => simp
  | cons x s ih => simp only [List.cons_append, List.length_cons, Nat.add_right_comm _ 1 i, List.take_succ_cons, ih]

theorem drop_len_add (s rest : Bytes) (i : Nat) : (s ++ rest).drop (s.length + i) = rest.drop i := by
  induction s with
  | nil => simp
  | cons x s ih => simp only [List.cons_append, List.length_cons, Nat.add_right_comm _ 1 i, List.drop_succ_cons, ih]

theorem take_app_le (s rest : Bytes) (i : Nat) (h : i ≤ s.length) : (s ++ rest).take i = s.take i :=
  List.take_append_of_le_length h

/-- long-bracket delimiters in the state contain no line feed -/
def Good (st : LexSt) : Prop :=
  match st.mode with
  | .inLong delim _ _ _ => delim.all (· != 10) = true
  | _ => True

theorem pt_inStr (shape : List Entry) (st : LexSt) (s : Bytes) (l c : Nat) (delim : UInt8) (acc : Bytes)
    (h : st.mode = .inStr delim l c acc) :
    processToken shape st s =
      match sl delim s acc 0 with
      | .error e => .error e
      | .ok (closed, acc', i) =>
        if closed then
          .ok (advance { st with toks := st.toks.push { kind := .string, data := acc', quote := some delim, line := l, col := c },
                                  mode := .normal } (s.take i), i)
        else .ok (advance { st with mode := .inStr delim l c acc' } (s.take i), i) := by
  simp only [processToken, h, sl]
  rfl

theorem pt_inComment (shape : List Entry) (st : LexSt) (s : Bytes) (l c : Nat) (acc : Bytes)
    (h : st.mode = .inComment l c acc) :
    processToken shape st s =
      match findSub [93, 93] s 0 with
      | some k =>
        .ok (advance { st with toks := st.toks.push { kind := .comment, data := acc ++ s.take (k + 2), line := l, col := c },
                                mode := .normal } (s.take (k + 2)), k + 2)
      | none => .ok (advance { st with mode := .inComment l c (acc ++ s) } (s.take s.length), s.length) := by
  simp only [processToken, h]
  rfl

theorem pt_inLong (shape : List Entry) (st : LexSt) (s : Bytes) (l c : Nat) (delim acc : Bytes)
    (h : st.mode = .inLong delim l c acc) :
    processToken shape st s =
      match findSub ([93] ++ delim ++ [93]) s 0 with
      | some k =>
        .ok (advance { st with toks := st.toks.push { kind := .string, data := acc ++ s.take k, mlq := some delim, line := l, col := c },
                                mode := .normal } (s.take (k + delim.length + 2)), k + delim.length + 2)
      | none => .ok (advance { st with mode := .inLong delim l c (acc ++ s) } (s.take s.length), s.length) := by
  simp only [processToken, h]
  rfl

theorem pt_nil (shape : List Entry) (st : LexSt) : processToken shape st [] = .ok (st, 0) := by
  cases hm : st.mode with
  | normal => simp [processToken, hm, processToken.normalMatch]
  | inStr delim l c acc =>
    rw [pt_inStr _ _ _ _ _ _ _ hm, sl_nil]
    simp only [Bool.false_eq_true, if_false, List.take_nil, advance, List.foldl_nil, ← hm]
  | inComment l c acc =>
    rw [pt_inComment _ _ _ _ _ _ hm]
    simp only [findSub, List.isEmpty_cons, Bool.false_eq_true, if_false, List.take_nil, advance, List.foldl_nil,
      List.append_nil, ← hm, List.length_nil]
  | inLong delim l c acc =>
    rw [pt_inLong _ _ _ _ _ _ _ hm]
    simp only [findSub, List.cons_append, List.isEmpty_cons, Bool.false_eq_true, if_false,
      List.take_nil, advance, List.foldl_nil, List.append_nil, ← hm, List.length_nil]

/-- a line processed with its canonical fuel -/
def pl (shape : List Entry) (st : LexSt) (s : Bytes) : Except Err LexSt := processLine shape (s.length + 1) st s

theorem processLine_fuel (shape : List Entry) (f : Nat) : ∀ (st : LexSt) (s : Bytes), s.length + 1 ≤ f →
    processLine shape f st s = pl shape st s := by
  induction f using Nat.strongRecOn with
  | _ f ih =>
    intro st s hf
    obtain ⟨g, rfl⟩ : ∃ g, f = g + 1 := ⟨f - 1, by omega⟩
    rw [pl, processLine_succ, processLine_succ]
    cases s with
    | nil => rw [pt_nil]; rfl
    | cons c r =>
      cases hp : processToken shape st (c :: r) with
      | error e => rfl
      | ok si =>
        obtain ⟨st', i⟩ := si
        simp only
        by_cases hi : i = 0
        · simp [hi]
        · simp only [hi, if_false]
          have hl : ((c :: r).drop i).length + 1 ≤ (c :: r).length := by
            simp only [List.length_drop, List.length_cons]; omega
          simp only [List.length_cons] at hf hl
          rw [ih g (by omega) _ _ (by omega)]
          exact (ih (c :: r).length (by simp only [List.length_cons]; omega) _ _ (by simpa using hl)).symm

theorem pl_step (shape : List Entry) (st : LexSt) (s : Bytes) :
    pl shape st s =
      match processToken shape st s with
      | .error e => .error e
      | .ok (st', i) => if i = 0 then (if s.isEmpty then .ok st' else .error .lex) else pl shape st' (s.drop i) := by
  rw [pl, processLine_succ]
  cases s with
  | nil => rw [pt_nil]; rfl
  | cons c r =>
    cases hp : processToken shape st (c :: r) with
    | error e => rfl
    | ok si =>
      obtain ⟨st', i⟩ := si
      simp only
      by_cases hi : i = 0
      · simp [hi]
      · simp only [hi, if_false]
        apply processLine_fuel
        simp only [List.length_drop, List.length_cons]; omega

theorem pl_nil (shape : List Entry) (st : LexSt) : pl shape st [] = .ok st := by
  rw [pl_step, pt_nil]; rfl

/-- the step on the line followed by `rest` is the step on the line alone, and stays inside the line -/
def Same (st : LexSt) (s rest : Bytes) : Prop :=
  processToken Gen.matcherShape st (s ++ rest) = processToken Gen.matcherShape st s ∧
    ∀ st' i, processToken Gen.matcherShape st s = .ok (st', i) → i ≤ s.length

theorem longCond_local (a rest : Bytes) :
    ((a ++ 10 :: rest).drop (spanLen (· == 61) (a ++ 10 :: rest))).head? =
      ((a ++ [10]).drop (spanLen (· == 61) (a ++ [10]))).head? := by
  rw [spanLen_lf _ (by decide), spanLen_lf _ (by decide), drop_span_app, drop_span_app]
  cases a.drop (spanLen (· == 61) a) <;> rfl

theorem same_normal (st : LexSt) (a rest : Bytes) (hm : st.mode = .normal) : Same st (a ++ [10]) rest := by
  unfold Same
  rw [List.append_assoc, List.singleton_append]
  by_cases hA : [45, 45, 91, 91].isPrefixOf (a ++ [10]) = true
  · have hA' : [45, 45, 91, 91].isPrefixOf (a ++ 10 :: rest) = true := by
      rw [pref_local _ (by decide)]; exact hA
    have hlen : 4 ≤ (a ++ [10]).length := (List.isPrefixOf_iff_prefix.mp hA).length_le
    rw [pt_comment_open _ _ _ hm hA, pt_comment_open _ _ _ hm hA']
    refine ⟨?_, fun st' i h => by cases h; exact hlen⟩
    rw [show a ++ 10 :: rest = (a ++ [10]) ++ rest by simp, take_app_le _ _ _ hlen]
  · have hA0 : [45, 45, 91, 91].isPrefixOf (a ++ [10]) = false := Bool.eq_false_iff.mpr hA
    have hA' : [45, 45, 91, 91].isPrefixOf (a ++ 10 :: rest) = false := by
      rw [pref_local _ (by decide)]; exact hA0
    -- write the line as `c :: r`, the longer text as `c :: r'`
    obtain ⟨c, r, r', hs, hs', hr⟩ : ∃ c r r', a ++ [10] = c :: r ∧ a ++ 10 :: rest = c :: r' ∧
        ((r = [] ∧ c = 10) ∨ ∃ a', r = a' ++ [10] ∧ r' = a' ++ 10 :: rest) := by
      cases a with
      | nil => exact ⟨10, [], rest, rfl, rfl, Or.inl ⟨rfl, rfl⟩⟩
      | cons c a' => exact ⟨c, a' ++ [10], a' ++ 10 :: rest, rfl, rfl, Or.inr ⟨a', rfl, rfl⟩⟩
    rw [hs] at hA0 ⊢
    rw [hs'] at hA' ⊢
    have hmo : matchOne Gen.matcherShape (c :: r') = matchOne Gen.matcherShape (c :: r) := by
      rw [← hs, ← hs']; exact matchOne_local a rest
    by_cases hB : c = 91 ∧ (r.drop (spanLen (· == 61) r)).head? = some 91
    · obtain ⟨rfl, hB⟩ := hB
      rcases hr with ⟨_, h10⟩ | ⟨a', rfl, rfl⟩
      · cases h10
      · have hB' : ((a' ++ 10 :: rest).drop (spanLen (· == 61) (a' ++ 10 :: rest))).head? = some 91 := by
          rw [longCond_local]; exact hB
        rw [pt_long_open _ _ _ hm hB, pt_long_open _ _ _ hm hB']
        have hn : spanLen (· == 61) (a' ++ 10 :: rest) = spanLen (· == 61) (a' ++ [10]) := by
          rw [spanLen_lf _ (by decide), spanLen_lf _ (by decide)]
        have hle : spanLen (· == 61) (a' ++ [10]) + 2 ≤ (91 :: (a' ++ [10])).length := by
          rw [spanLen_lf _ (by decide)]
          have := spanLen_le (· == 61) a'
          simp only [List.length_cons, List.length_append, List.length_nil]; omega
        rw [hn]
        refine ⟨?_, fun st' i h => by cases h; exact hle⟩
        rw [show (91 :: (a' ++ 10 :: rest) : Bytes) = (91 :: (a' ++ [10])) ++ rest by simp, take_app_le _ _ _ hle]
    · have hlo : c = 91 → (r.drop (spanLen (· == 61) r)).head? ≠ some 91 := fun h1 h2 => hB ⟨h1, h2⟩
      have hlo' : c = 91 → (r'.drop (spanLen (· == 61) r')).head? ≠ some 91 := by
        intro h1
        rcases hr with ⟨_, h10⟩ | ⟨a', rfl, rfl⟩
        · subst h1; cases h10
        · rw [longCond_local]; exact hlo h1
      rw [pt_normal _ _ _ _ hm hA0 hlo, pt_normal _ _ _ _ hm hA' hlo', hmo]
      have hlen : 1 ≤ (c :: r).length := by simp
      have htake : ∀ n, n ≤ (c :: r).length → (c :: r').take n = (c :: r).take n := by
        intro n hn
        rw [← hs, ← hs', show a ++ 10 :: rest = (a ++ [10]) ++ rest by simp]
        exact take_app_le _ _ _ (by rw [hs]; exact hn)
      split
      · refine ⟨by rw [htake 1 hlen], fun st' i h => by cases h; exact hlen⟩
      · cases hmm : matchOne Gen.matcherShape (c :: r) with
        | none => exact ⟨rfl, fun st' i h => by cases h; omega⟩
        | some kn =>
          obtain ⟨k, n⟩ := kn
          have hb := matchOne_bounded _ _ hmm
          simp only at hb ⊢
          refine ⟨by rw [htake n hb], fun st' i h => by cases h; exact hb⟩

def shiftT (j : Nat) : Except Err (LexSt × Nat) → Except Err (LexSt × Nat)
  | .error e => .error e
  | .ok (st, i) => .ok (st, j + i)

/-- the construct stays open over the whole line: the step on the longer text is the step on the line
followed by the step on the remaining text -/
def Opens (st : LexSt) (s rest : Bytes) : Prop :=
  ∃ st1, processToken Gen.matcherShape st s = .ok (st1, s.length) ∧ st1.mode ≠ .normal ∧ Good st1 ∧
    processToken Gen.matcherShape st (s ++ rest) = shiftT s.length (processToken Gen.matcherShape st1 rest)

theorem step_inStr (st : LexSt) (a rest : Bytes) (l c : Nat) (delim : UInt8) (acc : Bytes)
    (hm : st.mode = .inStr delim l c acc) : Same st (a ++ [10]) rest ∨ Opens st (a ++ [10]) rest := by
  generalize hs : a ++ [10] = s
  have hlf : LFend s := Or.inr ⟨a, hs.symm⟩
  cases hsl : sl delim s acc 0 with
  | error e =>
    left
    unfold Same
    rw [pt_inStr _ _ _ _ _ _ _ hm, pt_inStr _ _ _ _ _ _ _ hm, sl_chunk _ _ _ _ _ hlf, hsl]
    exact ⟨rfl, fun _ _ h => by cases h⟩
  | ok r =>
    obtain ⟨b, acc', i'⟩ := r
    obtain ⟨-, hb1, hb2, -⟩ := sl_bounds hsl
    simp only [Nat.zero_add] at hb1 hb2
    cases b with
    | true =>
      left
      unfold Same
      rw [pt_inStr _ _ _ _ _ _ _ hm, pt_inStr _ _ _ _ _ _ _ hm, sl_chunk _ _ _ _ _ hlf, hsl]
      simp only [contR, if_true, take_app_le _ _ _ hb1]
      exact ⟨trivial, fun _ _ h => by cases h; exact hb1⟩
    | false =>
      right
      have := hb2 rfl
      subst this
      refine ⟨advance { st with mode := .inStr delim l c acc' } (s.take s.length), ?_, ?_, ?_, ?_⟩
      · rw [pt_inStr _ _ _ _ _ _ _ hm, hsl]; rfl
      · rw [(advance_fields _ _).2.1]; simp
      · simp only [Good, (advance_fields _ _).2.1]
      · rw [pt_inStr _ _ _ _ _ _ _ hm, sl_chunk _ _ _ _ _ hlf, hsl]
        rw [pt_inStr _ _ rest l c delim acc' (by rw [(advance_fields _ _).2.1])]
        simp only [contR]
        rw [sl_shift]
        cases sl delim rest acc' 0 with
        | error e => rfl
        | ok r2 =>
          obtain ⟨b2, acc2, i2⟩ := r2
          simp only [shiftR, List.take_length]
          cases b2 with
          | true =>
            simp only [if_true, shiftT, Nat.add_comm i2, take_len_add, advance_append]
            simp only [advance_eq]
          | false =>
            simp only [Bool.false_eq_true, if_false, shiftT, Nat.add_comm i2, take_len_add, advance_append]
            simp only [advance_eq]

theorem step_inComment (st : LexSt) (a rest : Bytes) (l c : Nat) (acc : Bytes)
    (hm : st.mode = .inComment l c acc) : Same st (a ++ [10]) rest ∨ Opens st (a ++ [10]) rest := by
  generalize hs : a ++ [10] = s
  have hlf : LFend s := Or.inr ⟨a, hs.symm⟩
  have hchunk := findSub_chunk [93, 93] (by decide) (by simp) s rest 0 hlf
  cases hf : findSub [93, 93] s 0 with
  | some k =>
    left
    have hb := (findSub_bounds hf).2
    simp only [Nat.sub_zero, List.length_cons, List.length_nil] at hb
    unfold Same
    rw [pt_inComment _ _ _ _ _ _ hm, pt_inComment _ _ _ _ _ _ hm, hchunk, hf]
    simp only [take_app_le _ _ _ hb]
    exact ⟨trivial, fun _ _ h => by cases h; exact hb⟩
  | none =>
    right
    refine ⟨advance { st with mode := .inComment l c (acc ++ s) } (s.take s.length), ?_, ?_, ?_, ?_⟩
    · rw [pt_inComment _ _ _ _ _ _ hm, hf]
    · rw [(advance_fields _ _).2.1]; simp
    · simp only [Good, (advance_fields _ _).2.1]
    · rw [pt_inComment _ _ _ _ _ _ hm, hchunk, hf]
      rw [pt_inComment _ _ rest l c (acc ++ s) (by rw [(advance_fields _ _).2.1])]
      simp only [findSub_shift]
      cases findSub [93, 93] rest 0 with
      | some k2 =>
        simp only [Option.map_some, shiftT, List.take_length,
          show k2 + s.length + 2 = s.length + (k2 + 2) by omega, take_len_add, advance_append,
          List.append_assoc]
        simp only [advance_eq]
      | none =>
        simp only [Option.map_none, shiftT, List.take_length]
        simp only [advance_append, List.append_assoc, List.length_append]
        simp only [advance_eq]

theorem step_inLong (st : LexSt) (a rest : Bytes) (l c : Nat) (delim acc : Bytes)
    (hm : st.mode = .inLong delim l c acc) (hg : Good st) :
    Same st (a ++ [10]) rest ∨ Opens st (a ++ [10]) rest := by
  generalize hs : a ++ [10] = s
  have hlf : LFend s := Or.inr ⟨a, hs.symm⟩
  have hd : delim.all (· != 10) = true := by simpa only [Good, hm] using hg
  have hpat : lfOnlyLast ([93] ++ delim ++ [93]) = true :=
    lfOnlyLast_of_all _ (by simp only [List.all_append, hd]; rfl)
  have hchunk := findSub_chunk ([93] ++ delim ++ [93]) hpat (by simp) s rest 0 hlf
  cases hf : findSub ([93] ++ delim ++ [93]) s 0 with
  | some k =>
    left
    have hb := (findSub_bounds hf).2
    simp only [Nat.sub_zero, List.length_cons, List.length_nil, List.length_append] at hb
    have hb1 : k ≤ s.length := by omega
    have hb2 : k + delim.length + 2 ≤ s.length := by omega
    unfold Same
    rw [pt_inLong _ _ _ _ _ _ _ hm, pt_inLong _ _ _ _ _ _ _ hm, hchunk, hf]
    simp only [take_app_le _ _ _ hb1, take_app_le _ _ _ hb2]
    exact ⟨trivial, fun _ _ h => by cases h; exact hb2⟩
  | none =>
    right
    refine ⟨advance { st with mode := .inLong delim l c (acc ++ s) } (s.take s.length), ?_, ?_, ?_, ?_⟩
    · rw [pt_inLong _ _ _ _ _ _ _ hm, hf]
    · rw [(advance_fields _ _).2.1]; simp
    · simp only [Good, (advance_fields _ _).2.1]; exact hd
    · rw [pt_inLong _ _ _ _ _ _ _ hm, hchunk, hf]
      rw [pt_inLong _ _ rest l c delim (acc ++ s) (by rw [(advance_fields _ _).2.1])]
      simp only [findSub_shift]
      cases findSub ([93] ++ delim ++ [93]) rest 0 with
      | some k2 =>
        simp only [Option.map_some, shiftT, List.take_length,
          show s.length + k2 + delim.length + 2 = s.length + (k2 + delim.length + 2) by omega,
          Nat.add_comm k2 s.length, take_len_add, advance_append, List.append_assoc]
        simp only [advance_eq]
      | none =>
        simp only [Option.map_none, shiftT, List.take_length]
        simp only [advance_append, List.append_assoc, List.length_append]
        simp only [advance_eq]

theorem step_nonnormal (st : LexSt) (a rest : Bytes) (hm : st.mode ≠ .normal) (hg : Good st) :
    Same st (a ++ [10]) rest ∨ Opens st (a ++ [10]) rest := by
  cases h : st.mode with
  | normal => exact absurd h hm
  | inStr delim l c acc => exact step_inStr st a rest l c delim acc h
  | inComment l c acc => exact step_inComment st a rest l c acc h
  | inLong delim l c acc => exact step_inLong st a rest l c delim acc h hg

theorem pt_pos (st : LexSt) (s : Bytes) (hm : st.mode ≠ .normal) (hs : s ≠ []) (st' : LexSt) (i : Nat)
    (h : processToken Gen.matcherShape st s = .ok (st', i)) : 1 ≤ i := by
  have hlen : 1 ≤ s.length := List.length_pos_iff.mpr hs
  cases hmode : st.mode with
  | normal => exact absurd hmode hm
  | inStr delim l c acc =>
    rw [pt_inStr _ _ _ _ _ _ _ hmode] at h
    cases hsl : sl delim s acc 0 with
    | error e => rw [hsl] at h; cases h
    | ok r =>
      obtain ⟨b, acc', i'⟩ := r
      have := (sl_bounds hsl).2.2.2 hs
      rw [hsl] at h
      simp only at h
      split at h <;> (cases h; omega)
  | inComment l c acc =>
    rw [pt_inComment _ _ _ _ _ _ hmode] at h
    split at h <;> (cases h; omega)
  | inLong delim l c acc =>
    rw [pt_inLong _ _ _ _ _ _ _ hmode] at h
    split at h <;> (cases h; omega)

theorem Good_of_mode {st st2 : LexSt} (h : st2.mode = st.mode) (hg : Good st) : Good st2 := by
  unfold Good at hg ⊢; rw [h]; exact hg

theorem Good_of_not_long {st : LexSt} (h : ∀ d l c a, st.mode ≠ .inLong d l c a) : Good st := by
  unfold Good
  split
  · next d l c a hm => exact absurd hm (h d l c a)
  · trivial

theorem pt_good (st : LexSt) (s : Bytes) (hg : Good st) (st' : LexSt) (i : Nat)
    (h : processToken Gen.matcherShape st s = .ok (st', i)) : Good st' := by
  cases hmode : st.mode with
  | normal =>
    by_cases hA : [45, 45, 91, 91].isPrefixOf s = true
    · rw [pt_comment_open _ _ _ hmode hA] at h
      cases h
      exact Good_of_not_long (by intro d l c a; rw [(advance_fields _ _).2.1]; simp)
    · have hA' : [45, 45, 91, 91].isPrefixOf s = false := Bool.eq_false_iff.mpr hA
      match s with
      | [] => rw [pt_nil] at h; cases h; exact hg
      | c :: r =>
        by_cases hB : c = 91 ∧ (r.drop (spanLen (· == 61) r)).head? = some 91
        · obtain ⟨rfl, hB⟩ := hB
          rw [pt_long_open _ _ _ hmode hB] at h
          cases h
          unfold Good
          rw [(advance_fields _ _).2.1]
          simp
        · rw [pt_normal _ _ _ _ hmode hA' (fun h1 h2 => hB ⟨h1, h2⟩)] at h
          split at h
          · cases h
            exact Good_of_not_long (by intro d l c a; rw [(advance_fields _ _).2.1]; simp)
          · split at h
            · cases h
              exact Good_of_mode (by rw [(advance_fields _ _).2.1]) hg
            · cases h; exact hg
  | inStr delim l c acc =>
    rw [pt_inStr _ _ _ _ _ _ _ hmode] at h
    split at h
    · cases h
    · split at h <;>
      · cases h
        exact Good_of_not_long (by intro d l c a; rw [(advance_fields _ _).2.1]; simp)
  | inComment l c acc =>
    rw [pt_inComment _ _ _ _ _ _ hmode] at h
    split at h <;>
    · cases h
      exact Good_of_not_long (by intro d l c a; rw [(advance_fields _ _).2.1]; simp)
  | inLong delim l c acc =>
    have hd : delim.all (· != 10) = true := by simpa only [Good, hmode] using hg
    rw [pt_inLong _ _ _ _ _ _ _ hmode] at h
    split at h
    · cases h
      exact Good_of_not_long (by intro d l c a; rw [(advance_fields _ _).2.1]; simp)
    · cases h
      unfold Good
      rw [(advance_fields _ _).2.1]
      exact hd

/-! ### a chunk can be cut after any line feed -/

def thenPl (rest : Bytes) : Except Err LexSt → Except Err LexSt
  | .error e => .error e
  | .ok st' => pl Gen.matcherShape st' rest

theorem thenPl_nil (x : Except Err LexSt) : thenPl [] x = x := by
  cases x with
  | error e => rfl
  | ok st => exact pl_nil _ st

theorem pl_split_aux (rest : Bytes) (n : Nat) : ∀ (s : Bytes) (st : LexSt), s.length ≤ n → LFend s → Good st →
    pl Gen.matcherShape st (s ++ rest) = thenPl rest (pl Gen.matcherShape st s) := by
  induction n with
  | zero =>
    intro s st hn _ _
    have : s = [] := List.length_eq_zero_iff.mp (by omega)
    subst this
    rw [pl_nil]; rfl
  | succ n ih =>
    intro s st hn hs hg
    by_cases hrest : rest = []
    · subst hrest; rw [List.append_nil, thenPl_nil]
    rcases hs with rfl | ⟨a, rfl⟩
    · rw [pl_nil]; rfl
    have hlf : LFend (a ++ [10]) := Or.inr ⟨a, rfl⟩
    have hne : (a ++ [10]) ≠ [] := by simp
    have hstep : Same st (a ++ [10]) rest ∨ Opens st (a ++ [10]) rest := by
      by_cases hm : st.mode = .normal
      · exact Or.inl (same_normal st a rest hm)
      · exact step_nonnormal st a rest hm hg
    generalize a ++ [10] = s at hn hlf hne hstep
    rcases hstep with ⟨heq, hb⟩ | ⟨st1, h1, hm1, hg1, hwhole⟩
    · rw [pl_step _ _ (s ++ rest), heq, pl_step _ _ s]
      cases hp : processToken Gen.matcherShape st s with
      | error e => rfl
      | ok si =>
        obtain ⟨st', i⟩ := si
        have hi := hb st' i hp
        simp only
        by_cases h0 : i = 0
        · have e1 : (s ++ rest).isEmpty = false := by cases s <;> simp_all
          have e2 : s.isEmpty = false := by cases s <;> simp_all
          simp [h0, e1, e2, thenPl]
        · simp only [h0, if_false]
          rw [List.drop_append_of_le_length hi]
          exact ih _ _ (by simp only [List.length_drop]; omega) (LFend_drop hlf i) (pt_good _ _ hg _ _ hp)
    · have hlen : s.length ≠ 0 := by cases s <;> simp_all
      rw [pl_step _ _ (s ++ rest), hwhole, pl_step _ _ s, h1]
      simp only [hlen, if_false, List.drop_length, pl_nil, thenPl]
      rw [pl_step _ _ rest]
      cases hp : processToken Gen.matcherShape st1 rest with
      | error e => rfl
      | ok si =>
        obtain ⟨st2, i2⟩ := si
        have hi2 := pt_pos st1 rest hm1 hrest st2 i2 hp
        have e1 : s.length + i2 ≠ 0 := by omega
        have e2 : i2 ≠ 0 := by omega
        simp only [shiftT, e1, e2, if_false, drop_len_add]

theorem pl_split (st : LexSt) (s rest : Bytes) (hs : LFend s) (hg : Good st) :
    pl Gen.matcherShape st (s ++ rest) = thenPl rest (pl Gen.matcherShape st s) :=
  pl_split_aux rest s.length s st (Nat.le_refl _) hs hg

theorem pl_good (n : Nat) : ∀ (s : Bytes) (st st' : LexSt), s.length ≤ n → Good st →
    pl Gen.matcherShape st s = .ok st' → Good st' := by
  induction n with
  | zero =>
    intro s st st' hn hg h
    have : s = [] := List.length_eq_zero_iff.mp (by omega)
    subst this
    rw [pl_nil] at h; cases h; exact hg
  | succ n ih =>
    intro s st st' hn hg h
    rw [pl_step] at h
    cases hp : processToken Gen.matcherShape st s with
    | error e => rw [hp] at h; cases h
    | ok si =>
      obtain ⟨st1, i⟩ := si
      rw [hp] at h
      simp only at h
      have hg1 := pt_good _ _ hg _ _ hp
      by_cases h0 : i = 0
      · simp only [h0, if_true] at h
        split at h
        · cases h; exact hg1
        · cases h
      · simp only [h0, if_false] at h
        by_cases hs : s = []
        · subst hs; rw [List.drop_nil, pl_nil] at h; cases h; exact hg1
        · have : 1 ≤ s.length := List.length_pos_iff.mpr hs
          exact ih _ _ _ (by simp only [List.length_drop]; omega) hg1 h

/-! ### splitting at line ends -/

theorem splitAux_lf (rest : Bytes) : ∀ (a cur : Bytes), (∀ x ∈ a, x ≠ 10) →
    splitLinesAux (· == 10) (a ++ 10 :: rest) cur =
      (cur.reverse ++ a ++ [10]) :: splitLinesAux (· == 10) rest [] := by
  intro a
  induction a with
  | nil => intro cur _; simp [splitLinesAux]
  | cons x a ih =>
    intro cur h
    have hx : (x == 10) = false := by simpa using h x (by simp)
    simp only [List.cons_append, splitLinesAux, hx, Bool.false_eq_true, if_false]
    rw [ih (x :: cur) (fun y hy => h y (by simp [hy]))]
    simp

theorem splitAux_nolf : ∀ (a cur : Bytes), (∀ x ∈ a, x ≠ 10) →
    splitLinesAux (· == 10) a cur = if cur.reverse ++ a = [] then [] else [cur.reverse ++ a] := by
  intro a
  induction a with
  | nil => intro cur _; cases cur <;> simp [splitLinesAux]
  | cons x a ih =>
    intro cur h
    have hx : (x == 10) = false := by simpa using h x (by simp)
    simp only [splitLinesAux, hx, Bool.false_eq_true, if_false]
    rw [ih (x :: cur) (fun y hy => h y (by simp [hy]))]
    simp

theorem processLinesFrom_cons (st : LexSt) (l : Bytes) (ls : List Bytes) :
    processLinesFrom Gen.matcherShape st (l :: ls) =
      match pl Gen.matcherShape st l with
      | .error e => .error e
      | .ok st' => processLinesFrom Gen.matcherShape st' ls := by
  rw [processLinesFrom, processLine_fuel _ _ _ _ (by omega)]
  rfl

theorem processLinesFrom_single (st : LexSt) (src : Bytes) :
    processLinesFrom Gen.matcherShape st [src] = pl Gen.matcherShape st src := by
  rw [processLinesFrom_cons]
  cases pl Gen.matcherShape st src <;> rfl

theorem lines_eq_chunk (n : Nat) : ∀ (src : Bytes) (st : LexSt), src.length ≤ n → Good st →
    processLinesFrom Gen.matcherShape st (splitLines src) = pl Gen.matcherShape st src := by
  induction n with
  | zero =>
    intro src st hn _
    have : src = [] := List.length_eq_zero_iff.mp (by omega)
    subst this
    rw [pl_nil]; rfl
  | succ n ih =>
    intro src st hn hg
    have hsplit : src.takeWhile (· != 10) ++ src.dropWhile (· != 10) = src := List.takeWhile_append_dropWhile
    have ha : ∀ x ∈ src.takeWhile (· != 10), x ≠ 10 := fun x hx => by
      have := List.all_eq_true.mp (List.all_takeWhile (l := src) (p := (· != 10))) x hx
      simpa using this
    generalize src.takeWhile (· != 10) = a at hsplit ha
    cases hd : src.dropWhile (· != 10) with
    | nil =>
      rw [hd, List.append_nil] at hsplit
      subst hsplit
      rw [splitLines, splitAux_nolf a [] ha]
      split
      · next h =>
        have : a = [] := by simpa using h
        subst this; rw [pl_nil]; rfl
      · exact processLinesFrom_single st a
    | cons x rest =>
      have hx : x = 10 := by
        have := List.head_dropWhile_not (· != 10) (l := src) (by rw [hd]; simp)
        simpa [hd] using this
      subst hx
      rw [hd] at hsplit
      subst hsplit
      rw [splitLines, splitAux_lf rest a [] ha]
      simp only [List.reverse_nil, List.nil_append]
      rw [processLinesFrom_cons, show a ++ 10 :: rest = (a ++ [10]) ++ rest by simp,
        pl_split st (a ++ [10]) rest (Or.inr ⟨a, rfl⟩) hg]
      cases hp : pl Gen.matcherShape st (a ++ [10]) with
      | error e => rfl
      | ok st' =>
        simp only [thenPl]
        have hlen : rest.length ≤ n := by
          simp only [List.length_append, List.length_cons] at hn; omega
        exact ih rest st' hlen (pl_good _ _ _ _ (Nat.le_refl _) hg hp)

theorem chunk_indep (src : Bytes) : lex (splitLines src) = lex [src] := by
  have hg : Good {} := by simp [Good]
  simp only [lex, processLines]
  rw [lines_eq_chunk src.length src {} (Nat.le_refl _) hg, processLinesFrom_single]

end Pico.C07L
