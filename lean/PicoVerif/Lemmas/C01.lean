import PicoVerif.Model.Writers
import PicoVerif.Spec.LuaLex
import PicoVerif.Lemmas.C01Min
/-! Helper lemmas for C01 (luamin keeps the program).

Part 1 (this file): direct facts about `needsSpace`, `joinChunks`, `minStep`, `tokenCount`.
Part 2 (the end-to-end theorem `minify_relex`) lives in `C01Lex` (matcher table as a cascade, lexer runs),
`C01Fwd` (a token text followed by a harmless continuation lexes to that token), `C01Num` (numerals in context),
`C01Str` (strings and block comments), `C01Inv` (invariants of lexer-produced tokens) and `C01Min` (the writer and
the main induction; `minify_relex_L`). -/
namespace Pico.C01L
open Pico.Lex Pico.Wr

/-! ### part 1: direct facts about `needsSpace`, `joinChunks`, `minStep`, `tokenCount` -/


theorem needsSpace_covers (a b : Bytes) :
    (a.getLast? = some 45 ∧ b.head? = some 45 → needsSpace a b = true) ∧
    (a.getLast? = some 91 ∧ b.head? = some 91 → needsSpace a b = true) ∧
    (a.getLast? = some 46 ∧ b.head? = some 46 → needsSpace a b = true) ∧
    (a ≠ [] → (a.head?.map isDigit).getD false = true ∧ b.head? = some 46 → needsSpace a b = true) := by
  refine ⟨?_, ?_, ?_, ?_⟩
  · rintro ⟨h1, h2⟩; simp [needsSpace, h1, h2]
  · rintro ⟨h1, h2⟩; simp [needsSpace, h1, h2]
  · rintro ⟨h1, h2⟩; simp [needsSpace, h1, h2]
  · intro ha ⟨h1, h2⟩
    obtain ⟨l, hl⟩ : ∃ l, a.getLast? = some l := by
      cases h : a.getLast? with
      | none => simp at h; exact absurd h ha
      | some l => exact ⟨l, rfl⟩
    simp only [needsSpace, hl, h2, h1]
    simp

theorem joined_separated (prev : Bytes) (cs : List Bytes) :
    joinChunks prev cs = (cs.zip (prev :: cs)).flatMap (fun (c, p) => (if needsSpace p c then [32] else []) ++ c) := by
  induction cs generalizing prev with
  | nil => simp [joinChunks]
  | cons c rest ih => simp [joinChunks, ih]



theorem words_separated (cfg : NameCfg) (st : MinSt) (t : Tok) (h : st.lastNKN = true)
    (hk : t.kind = .name ∨ t.kind = .keyword ∨ t.kind = .number) (hs : st.seenCode = true) :
    ∃ st' c, minStep cfg st t = (st', [[32], c]) ∧ st'.lastNKN = true := by
  rcases hk with hk | hk | hk <;> simp [minStep, hs, hk, h]

theorem newline_kept (cfg : NameCfg) (st : MinSt) (t : Tok) (hk : t.kind = .newline) (hs : st.seenCode = true) :
    minStep cfg st t = ({ st with lastNKN := false, lastNL := true }, if st.lastNL then [] else [[10]]) := by
  simp [minStep, hs, hk]



/-- per-token weight of `tokenCount` -/
def tokW (t : Tok) : Nat :=
  if (t.kind == .symbol && (t.data == [58] || t.data == [46] || t.data == [41] || t.data == [93] || t.data == [125]))
       || (t.kind == .keyword && (t.data == "local".toUTF8.toList || t.data == "end".toUTF8.toList)) then 0
  else if t.kind == .number && t.data.contains 101 then 2
  else if !t.trivia then 1 else 0

theorem tokenCount_foldl (toks : List Tok) (c : Nat) :
    toks.foldl (fun c t =>
    if (t.kind == .symbol && (t.data == [58] || t.data == [46] || t.data == [41] || t.data == [93] || t.data == [125]))
       || (t.kind == .keyword && (t.data == "local".toUTF8.toList || t.data == "end".toUTF8.toList)) then c
    else if t.kind == .number && t.data.contains 101 then c + 2
    else if !t.trivia then c + 1 else c) c = c + (toks.map tokW).sum := by
  induction toks generalizing c with
  | nil => simp
  | cons t rest ih =>
    simp only [List.foldl_cons, List.map_cons, List.sum_cons, ih]
    generalize (List.map tokW rest).sum = r
    unfold tokW
    repeat' split
    all_goals omega

theorem tokenCount_eq_sum (toks : List Tok) : tokenCount toks = (toks.map tokW).sum := by
  unfold tokenCount; rw [tokenCount_foldl]; simp

theorem tokW_trivia (t : Tok) (h : t.trivia = true) : tokW t = 0 := by
  unfold tokW
  simp only [Tok.trivia, Bool.or_eq_true, beq_iff_eq] at h
  rcases h with (h | h) | h <;> simp [h, Tok.trivia]

theorem sum_filter_sig (toks : List Tok) :
    ((toks.filter (fun t => !t.trivia)).map tokW).sum = (toks.map tokW).sum := by
  induction toks with
  | nil => rfl
  | cons t rest ih =>
    by_cases h : t.trivia = true
    · simp [h, ih, tokW_trivia t h]
    · simp [h, ih]

theorem tokW_congr (x y : Tok) (hk : x.kind = y.kind)
    (hd : y.kind ≠ .name → y.kind ≠ .label → x.data = y.data) : tokW x = tokW y := by
  by_cases h1 : y.kind = .name
  · simp [tokW, hk, h1, Tok.trivia]
  · by_cases h2 : y.kind = .label
    · simp [tokW, hk, h2, Tok.trivia]
    · simp [tokW, hk, hd h1 h2, Tok.trivia]

theorem sum_congr_idx (a b : List Tok) (hlen : a.length = b.length)
    (h : ∀ i, i < b.length → ∃ x y, a[i]? = some x ∧ b[i]? = some y ∧ tokW x = tokW y) :
    (a.map tokW).sum = (b.map tokW).sum := by
  induction a generalizing b with
  | nil => cases b with
    | nil => rfl
    | cons _ _ => simp at hlen
  | cons x xs ih =>
    cases b with
    | nil => simp at hlen
    | cons y ys =>
      have h0 := h 0 (by simp)
      simp only [List.getElem?_cons_zero, Option.some.injEq] at h0
      obtain ⟨x', y', rfl, rfl, hw⟩ := h0
      simp only [List.map_cons, List.sum_cons, hw]
      congr 1
      apply ih ys (by simpa using hlen)
      intro i hi
      have := h (i + 1) (by simp; omega)
      simpa using this

theorem token_count (a b : List Tok)
    (hlen : (a.filter (fun t => !t.trivia)).length = (b.filter (fun t => !t.trivia)).length)
    (h : ∀ i, i < (b.filter (fun t => !t.trivia)).length → ∃ x y,
       (a.filter (fun t => !t.trivia))[i]? = some x ∧ (b.filter (fun t => !t.trivia))[i]? = some y ∧
       x.kind = y.kind ∧ (y.kind ≠ .name → y.kind ≠ .label → x.data = y.data)) :
    tokenCount a = tokenCount b := by
  rw [tokenCount_eq_sum, tokenCount_eq_sum, ← sum_filter_sig a, ← sum_filter_sig b]
  apply sum_congr_idx _ _ hlen
  intro i hi
  obtain ⟨x, y, hx, hy, hk, hd⟩ := h i hi
  exact ⟨x, y, hx, hy, tokW_congr x y hk hd⟩


end Pico.C01L
