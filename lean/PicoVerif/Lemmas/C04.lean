import PicoVerif.Model.P8Png
import PicoVerif.Props.C05
/-! Helper lemmas for C04 (`.p8.png` round trip): 2-bit channel arithmetic, rows, images, code area,
slices of the hidden bytes. -/
namespace Pico.C04
open Pico.P8Png Pico.P8File Pico.Compress

/-! ### bytes -/

def chanOK (c : UInt8) : Bool :=
  [(0:UInt8),1,2,3].all fun k => (((c &&& 0xfc) ||| k) &&& 3 == k) && (((c &&& 0xfc) ||| k) >>> (2:UInt8) == c >>> (2:UInt8))

theorem chan_ok : ∀ c, chanOK c = true := forall_u8 _ (by decide +kernel)

def low2OK (x : UInt8) : Bool := [(0:UInt8),1,2,3].contains (x &&& 3)
theorem low2_ok : ∀ x, low2OK x = true := forall_u8 _ (by decide +kernel)

def recombOK (v : UInt8) : Bool :=
  (((v &&& 3) <<< (0 : UInt8)) ||| (((v >>> (2 : UInt8)) &&& 3) <<< (2 : UInt8)) ||| (((v >>> (4 : UInt8)) &&& 3) <<< (4 : UInt8)) ||| (((v >>> (6 : UInt8)) &&& 3) <<< (6 : UInt8))) == v
theorem recomb_ok : ∀ v, recombOK v = true := forall_u8 _ (by decide +kernel)

theorem chan_and (c x : UInt8) : ((c &&& 0xfc) ||| (x &&& 3)) &&& 3 = x &&& 3 := by
  have h1 := chan_ok c
  have h2 := low2_ok x
  simp only [chanOK, low2OK, List.all_cons, List.all_nil, List.contains_cons, List.contains_nil,
    Bool.and_eq_true, Bool.or_eq_true, beq_iff_eq, Bool.and_true, Bool.or_false] at h1 h2
  obtain ⟨⟨a0, _⟩, ⟨a1, _⟩, ⟨a2, _⟩, a3, _⟩ := h1
  rcases h2 with h | h | h | h <;> rw [h] <;> assumption

theorem chan_shr (c x : UInt8) : ((c &&& 0xfc) ||| (x &&& 3)) >>> (2:UInt8) = c >>> (2:UInt8) := by
  have h1 := chan_ok c
  have h2 := low2_ok x
  simp only [chanOK, low2OK, List.all_cons, List.all_nil, List.contains_cons, List.contains_nil,
    Bool.and_eq_true, Bool.or_eq_true, beq_iff_eq, Bool.and_true, Bool.or_false] at h1 h2
  obtain ⟨⟨_, b0⟩, ⟨_, b1⟩, ⟨_, b2⟩, _, b3⟩ := h1
  rcases h2 with h | h | h | h <;> rw [h] <;> assumption

theorem dec_enc_pixel (r g b a v : UInt8) :
    decPixel ((r &&& 0xfc) ||| ((v >>> (4 : UInt8)) &&& 3)) ((g &&& 0xfc) ||| ((v >>> (2 : UInt8)) &&& 3))
      ((b &&& 0xfc) ||| (v &&& 3)) ((a &&& 0xfc) ||| ((v >>> (6 : UInt8)) &&& 3)) = v := by
  unfold decPixel
  rw [chan_and, chan_and, chan_and, chan_and]
  have := recomb_ok v
  simpa [recombOK] using this


/-! ### rows -/

theorem encRow_length (row vs : List UInt8) : (encRow row vs).length = row.length := by
  induction row, vs using encRow.induct with
  | case1 r g b a rest v vs ih => simp [encRow, encPixel, ih]
  | case2 row vs h => rw [encRow.eq_2 _ _ h]

theorem decRow_length (row : List UInt8) : (decRow row).length = row.length / 4 := by
  induction row using decRow.induct with
  | case1 r g b a rest ih => simp [decRow, ih]; omega
  | case2 row h =>
    rw [decRow.eq_2 _ h]
    match row, h with
    | [], _ => rfl
    | [_], _ => simp
    | [_, _], _ => simp
    | [_, _, _], _ => simp
    | r :: g :: b :: a :: rest, h => exact (h r g b a rest rfl).elim

/-- upper six bits of every channel survive -/
theorem encRow_shr (row vs : List UInt8) (j : Nat) :
    (encRow row vs).getD j 0 >>> (2 : UInt8) = row.getD j 0 >>> (2 : UInt8) := by
  induction row, vs using encRow.induct generalizing j with
  | case1 r g b a rest v vs ih =>
    simp only [encRow, encPixel]
    match j with
    | 0 => simp [chan_shr]
    | 1 => simp [chan_shr]
    | 2 => simpa using chan_shr b v
    | 3 => simp [chan_shr]
    | j + 4 => simpa using ih j
  | case2 row vs h => rw [encRow.eq_2 _ _ h]

/-- decoding an encoded row of `w` pixels: the first `w` hidden bytes, then whatever the label held -/
theorem decRow_encRow (w : Nat) (row vs : List UInt8) (hrow : row.length = 4 * w) :
    (vs.length ≤ w → vs <+: decRow (encRow row vs)) ∧
    (w ≤ vs.length → decRow (encRow row vs) = vs.take w) := by
  induction w generalizing row vs with
  | zero =>
    have : row = [] := List.length_eq_zero_iff.mp (by omega)
    subst this
    constructor
    · intro h
      have : vs = [] := List.length_eq_zero_iff.mp (by omega)
      subst this; simp [encRow, decRow]
    · intro _; simp [encRow, decRow]
  | succ w ih =>
    match row, hrow with
    | r :: g :: b :: a :: rest, hrow =>
      have hrest : rest.length = 4 * w := by simp at hrow; omega
      match vs with
      | [] =>
        constructor
        · intro _; exact List.nil_prefix
        · intro h; simp at h
      | v :: vs =>
        have ⟨ih1, ih2⟩ := ih rest vs hrest
        simp only [encRow, encPixel, List.cons_append, List.nil_append, decRow, dec_enc_pixel]
        constructor
        · intro h
          have := ih1 (by simpa using h)
          exact List.cons_prefix_cons.mpr ⟨rfl, this⟩
        · intro h
          rw [ih2 (by simpa using h)]; simp

/-! ### images -/

theorem encRows_length (lbl : List (List UInt8)) (pico : Bytes) :
    (encRows lbl pico).length = lbl.length := by
  induction lbl generalizing pico with
  | nil => rfl
  | cons row rest ih => simp [encRows, ih]

theorem encRows_getD (lbl : List (List UInt8)) (pico : Bytes) (i : Nat) (hi : i < lbl.length) :
    ∃ vs, (encRows lbl pico).getD i [] = encRow (lbl.getD i []) vs := by
  induction lbl generalizing pico i with
  | nil => simp at hi
  | cons row rest ih =>
    cases i with
    | zero => exact ⟨pico, by simp [encRows]⟩
    | succ i =>
      obtain ⟨vs, hvs⟩ := ih (pico.drop (row.length / 4)) i (by simpa using hi)
      exact ⟨vs, by simpa [encRows] using hvs⟩

theorem decRows_cons (row : List UInt8) (rows : List (List UInt8)) :
    decRows (row :: rows) = decRow row ++ decRows rows := by
  simp [decRows]

theorem decRows_encRows_length (lbl : List (List UInt8)) (w : Nat) (pico : Bytes)
    (h : ∀ r ∈ lbl, r.length = 4 * w) : (decRows (encRows lbl pico)).length = w * lbl.length := by
  induction lbl generalizing pico with
  | nil => simp [encRows, decRows]
  | cons row rest ih =>
    have hrow : row.length = 4 * w := h row (by simp)
    rw [encRows, decRows_cons, List.length_append, decRow_length, encRow_length,
      ih _ (fun r hr => h r (by simp [hr])), hrow, List.length_cons]
    rw [Nat.mul_add, Nat.mul_one, Nat.mul_div_cancel_left _ (by omega : 0 < 4)]
    omega

theorem stego_prefix (lbl : List (List UInt8)) (w : Nat) (pico : Bytes)
    (h : ∀ r ∈ lbl, r.length = 4 * w) (hp : pico.length ≤ w * lbl.length) :
    pico <+: decRows (encRows lbl pico) := by
  induction lbl generalizing pico with
  | nil =>
    have : pico = [] := List.length_eq_zero_iff.mp (by simpa using hp)
    subst this; exact List.nil_prefix
  | cons row rest ih =>
    have hrow : row.length = 4 * w := h row (by simp)
    have hdiv : row.length / 4 = w := by omega
    have ⟨h1, h2⟩ := decRow_encRow w row pico hrow
    rw [encRows, decRows_cons, hdiv]
    by_cases hle : pico.length ≤ w
    · exact List.IsPrefix.trans (h1 hle) (List.prefix_append _ _)
    · have hge : w ≤ pico.length := by omega
      rw [h2 hge]
      have hlen : (pico.drop w).length ≤ w * rest.length := by
        rw [List.length_drop]
        rw [List.length_cons, Nat.mul_add, Nat.mul_one] at hp
        omega
      have := ih (pico.drop w) (fun r hr => h r (by simp [hr])) hlen
      conv => lhs; rw [← List.take_append_drop w pico]
      exact (List.prefix_append_right_inj _).mpr this

/-! ### code area: writer -/

theorem header_length (t : Bytes) : (header t).length = 8 := rfl

theorem contains_zero_iff (code : Bytes) : code.contains (0 : UInt8) = true ↔ (0 : UInt8) ∈ code := by
  simp

theorem rawOk_iff (code : Bytes) :
    rawOk code = true ↔ (0 : UInt8) ∉ code ∧ code ≠ [0x3a, 0x63, 0x3a] := by
  simp [rawOk]

theorem useCompressed_iff (code : Bytes) (v : Nat) :
    useCompressed code v = true ↔
      v ≠ 0 ∧ ((compress code).length + 8 < code.length ∨ rawOk code = false) := by
  simp [useCompressed]

theorem useCompressed_ne_zero (code : Bytes) (v : Nat) (h : useCompressed code v = true) : v ≠ 0 :=
  ((useCompressed_iff code v).mp h).1

theorem useCompressed_zero (code : Bytes) : useCompressed code 0 = false := by
  simp [useCompressed]

/-- not stored compressed in a cart of version ≥ 1: the raw form can represent the code -/
theorem rawOk_of_not_useCompressed (code : Bytes) (v : Nat) (hv : v ≠ 0) (h : useCompressed code v = false) :
    (0 : UInt8) ∉ code ∧ code ≠ [0x3a, 0x63, 0x3a] := by
  rw [← rawOk_iff]
  cases hr : rawOk code with
  | true => rfl
  | false =>
    have : useCompressed code v = true := (useCompressed_iff code v).mpr ⟨hv, Or.inr hr⟩
    rw [h] at this; cases this

theorem getBytes_error (code : Bytes) (v : Nat)
    (h : ¬ (if useCompressed code v = true then code.length < 65536 ∧ 8 + (compress code).length ≤ codeAreaLen
      else ¬ (v = 0 ∧ (0 : UInt8) ∈ code) ∧ code.length ≤ codeAreaLen)) :
    ∃ e, getBytesFromCode code v = .error e := by
  unfold getBytesFromCode
  by_cases h0 : v = 0 ∧ code.contains 0 = true
  · exact ⟨_, by rw [if_pos h0]⟩
  rw [if_neg h0]
  simp only [List.length_append, header_length]
  by_cases hc : useCompressed code v = true
  · simp only [hc, if_true] at h ⊢
    by_cases h1 : code.length / 256 > 255
    · exact ⟨_, by rw [if_pos h1]⟩
    · rw [if_neg h1]
      have : 8 + (compress code).length > codeAreaLen := by
        false_or_by_contra; apply h; constructor <;> omega
      exact ⟨_, by rw [if_pos this]⟩
  · rw [if_neg hc] at h ⊢
    rw [contains_zero_iff] at h0
    have : code.length > codeAreaLen := by
      false_or_by_contra; apply h; exact ⟨h0, by omega⟩
    exact ⟨_, by rw [if_pos this]⟩

theorem getBytes_compressed (code : Bytes) (v : Nat) (hc : useCompressed code v = true)
    (h1 : code.length < 65536) (h2 : 8 + (compress code).length ≤ codeAreaLen) :
    getBytesFromCode code v = .ok (header code ++ compress code ++
      List.replicate (codeAreaLen - (8 + (compress code).length)) 0) := by
  unfold getBytesFromCode
  have hv := useCompressed_ne_zero code v hc
  rw [if_neg (fun h => hv h.1), if_pos hc]
  simp only [List.length_append, header_length]
  rw [if_neg (by omega), if_neg (by omega)]

theorem getBytes_raw (code : Bytes) (v : Nat) (hc : ¬ useCompressed code v = true)
    (h0 : ¬ (v = 0 ∧ (0 : UInt8) ∈ code)) (h1 : code.length ≤ codeAreaLen) :
    getBytesFromCode code v = .ok (code ++ List.replicate (codeAreaLen - code.length) 0) := by
  unfold getBytesFromCode
  rw [← contains_zero_iff] at h0
  rw [if_neg h0, if_neg hc, if_neg (by omega)]

/-! ### code area: reader, raw form -/

theorem raw_take4 (code : Bytes) (k : Nat) (hnul : (0 : UInt8) ∉ code) (hnc : code ≠ [0x3a, 0x63, 0x3a]) :
    (code ++ List.replicate k 0).take 4 ≠ [0x3a, 0x63, 0x3a, 0x00] := by
  match code, hnul, hnc with
  | [], _, _ => cases k <;> simp [List.replicate_succ]
  | [a], _, _ => cases k <;> simp [List.replicate_succ]
  | [a, b], _, _ => cases k <;> simp [List.replicate_succ]
  | [a, b, c], _, hnc => cases k <;> simp_all [List.replicate_succ]
  | a :: b :: c :: d :: rest, hnul, _ =>
    simp only [List.cons_append, List.take_succ_cons, List.take_zero]
    intro h
    simp only [List.cons.injEq, and_true] at h
    apply hnul
    simp [h.2.2.2]

theorem raw_idxOf (code : Bytes) (k : Nat) (hnul : (0 : UInt8) ∉ code) :
    (code ++ List.replicate k (0 : UInt8)).idxOf? 0 = if 0 < k then some code.length else none := by
  have h0 : List.findIdx? (fun x => x == (0 : UInt8)) code = none := by
    rw [List.findIdx?_eq_none_iff]
    intro x hx
    simp only [beq_eq_false_iff_ne, ne_eq]
    intro h; subst h; exact hnul hx
  simp only [List.idxOf?, List.findIdx?_append, h0, List.findIdx?_replicate]
  by_cases hk : 0 < k <;> simp [hk]

theorem getCode_raw (code : Bytes) (k v : Nat) (hlen : code.length + k = codeAreaLen)
    (hnul : (0 : UInt8) ∉ code) (hnc : v = 0 ∨ code ≠ [0x3a, 0x63, 0x3a]) :
    getCodeFromBytes (code ++ List.replicate k 0) v = .ok (code.length, replaceCR (code ++ [10]), none) := by
  unfold getCodeFromBytes
  rw [if_pos (hnc.imp id (raw_take4 code k hnul)), raw_idxOf code k hnul]
  by_cases hk : 0 < k
  · simp [hk]
  · have : k = 0 := by omega
    subst this
    simp [← hlen]

/-! ### code area: reader, compressed form -/

theorem getCode_compressed (code pad : Bytes) (v : Nat) (hv : v ≠ 0) (hg : C05.Guard code) :
    ∃ sz, getCodeFromBytes (header code ++ compress code ++ pad) v
      = .ok (code.length, replaceCR code, some sz) := by
  obtain ⟨sz, hsz⟩ := C05.area_roundtrip code hg pad
  refine ⟨sz, ?_⟩
  unfold getCodeFromBytes
  rw [hsz]
  have h4 : (header code ++ compress code ++ pad).take 4 = [0x3a, 0x63, 0x3a, 0x00] := by
    simp [header]
  rw [if_neg (by rw [h4]; simp [hv])]

/-! ### the hidden bytes and `fromPixels` -/

theorem pySlice_mid {α} (a b c : List α) (lo hi : Nat) (h1 : a.length = lo) (h2 : lo + b.length = hi) :
    pySlice (a ++ b ++ c) lo hi = b := by
  subst h1 h2
  simp [pySlice, List.take_append, List.append_assoc]

theorem pySlice_take {α} (l : List α) (n lo hi : Nat) (h : hi ≤ n) :
    pySlice l lo hi = pySlice (l.take n) lo hi := by
  simp [pySlice, List.take_take, Nat.min_eq_left h]

theorem getD_take {α} (l : List α) (n i : Nat) (d : α) (h : i < n) :
    l.getD i d = (l.take n).getD i d := by
  simp [List.getD_eq_getElem?_getD, h]

theorem toUInt8_toNat (n : Nat) (h : n < 256) : n.toUInt8.toNat = n := by
  simp; omega

theorem picodata_length (c : Cart) (area : Bytes)
    (hgfx : c.gfx.length = 0x2000) (hgff : c.gff.length = 0x100) (hmap : c.map.length = 0x1000)
    (hsfx : c.sfx.length = 0x1100) (hmusic : c.music.length = 0x100) (ha : area.length = codeAreaLen) :
    (picodata c area).length = 0x8001 := by
  simp [picodata, hgfx, hgff, hmap, hsfx, hmusic, ha, codeAreaLen]

theorem fromPixels_of_take (rows : List (List UInt8)) (c : Cart) (area : Bytes)
    (hgfx : c.gfx.length = 0x2000) (hgff : c.gff.length = 0x100) (hmap : c.map.length = 0x1000)
    (hsfx : c.sfx.length = 0x1100) (hmusic : c.music.length = 0x100) (hver : c.version < 256)
    (ha : area.length = codeAreaLen)
    (hlen : 0x8001 ≤ (decRows rows).length) (htake : (decRows rows).take 0x8001 = picodata c area)
    (n : Nat) (code : Bytes) (sz : Option Nat)
    (hcode : getCodeFromBytes area c.version = .ok (n, code, sz)) :
    fromPixels rows = .ok { c with code := code, label := none } := by
  have ha' : area.length = 0x3d00 := ha
  have s1 : pySlice (decRows rows) 0 0x2000 = c.gfx := by
    rw [pySlice_take _ 0x8001 _ _ (by omega), htake]
    have := pySlice_mid [] c.gfx (c.map ++ c.gff ++ c.music ++ c.sfx ++ area ++ [c.version.toUInt8]) 0 0x2000 rfl (by omega)
    simpa [picodata, List.append_assoc] using this
  have s2 : pySlice (decRows rows) 0x2000 0x3000 = c.map := by
    rw [pySlice_take _ 0x8001 _ _ (by omega), htake]
    have := pySlice_mid c.gfx c.map (c.gff ++ c.music ++ c.sfx ++ area ++ [c.version.toUInt8]) 0x2000 0x3000 hgfx (by omega)
    simpa [picodata, List.append_assoc] using this
  have s3 : pySlice (decRows rows) 0x3000 0x3100 = c.gff := by
    rw [pySlice_take _ 0x8001 _ _ (by omega), htake]
    have := pySlice_mid (c.gfx ++ c.map) c.gff (c.music ++ c.sfx ++ area ++ [c.version.toUInt8]) 0x3000 0x3100
      (by simp [hgfx, hmap]) (by omega)
    simpa [picodata, List.append_assoc] using this
  have s4 : pySlice (decRows rows) 0x3100 0x3200 = c.music := by
    rw [pySlice_take _ 0x8001 _ _ (by omega), htake]
    have := pySlice_mid (c.gfx ++ c.map ++ c.gff) c.music (c.sfx ++ area ++ [c.version.toUInt8]) 0x3100 0x3200
      (by simp [hgfx, hmap, hgff]) (by omega)
    simpa [picodata, List.append_assoc] using this
  have s5 : pySlice (decRows rows) 0x3200 0x4300 = c.sfx := by
    rw [pySlice_take _ 0x8001 _ _ (by omega), htake]
    have := pySlice_mid (c.gfx ++ c.map ++ c.gff ++ c.music) c.sfx (area ++ [c.version.toUInt8]) 0x3200 0x4300
      (by simp [hgfx, hmap, hgff, hmusic]) (by omega)
    simpa [picodata, List.append_assoc] using this
  have s6 : pySlice (decRows rows) 0x4300 0x8000 = area := by
    rw [pySlice_take _ 0x8001 _ _ (by omega), htake]
    have := pySlice_mid (c.gfx ++ c.map ++ c.gff ++ c.music ++ c.sfx) area [c.version.toUInt8] 0x4300 0x8000
      (by simp [hgfx, hmap, hgff, hmusic, hsfx]) (by omega)
    simpa [picodata, List.append_assoc] using this
  have s7 : ((decRows rows).getD 0x8000 0).toNat = c.version := by
    rw [getD_take _ 0x8001 _ _ (by omega), htake]
    have hl : (c.gfx ++ c.map ++ c.gff ++ c.music ++ c.sfx ++ area).length = 0x8000 := by
      simp [hgfx, hmap, hgff, hmusic, hsfx, ha']
    rw [picodata, List.getD_eq_getElem?_getD, List.getElem?_append_right (by omega), hl]
    simpa using toUInt8_toNat _ hver
  unfold fromPixels
  simp only [s1, s2, s3, s4, s5, s6, s7, hcode]
  rw [if_neg (by omega)]
  rfl

/-- write then read, given what the code area holds and how the reader decodes it -/
theorem pixels_roundtrip (lbl : List (List UInt8)) (w : Nat) (c : Cart) (area : Bytes)
    (hrows : ∀ r ∈ lbl, r.length = 4 * w) (hroom : 0x8001 ≤ w * lbl.length)
    (hgfx : c.gfx.length = 0x2000) (hgff : c.gff.length = 0x100) (hmap : c.map.length = 0x1000)
    (hsfx : c.sfx.length = 0x1100) (hmusic : c.music.length = 0x100) (hver : c.version < 256)
    (hb : getBytesFromCode c.code c.version = .ok area) (ha : area.length = codeAreaLen)
    (n : Nat) (code : Bytes) (sz : Option Nat)
    (hcode : getCodeFromBytes area c.version = .ok (n, code, sz)) :
    ∃ rows, toPixels lbl c = .ok rows ∧ fromPixels rows = .ok { c with code := code, label := none } := by
  have hpl := picodata_length c area hgfx hgff hmap hsfx hmusic ha
  refine ⟨encRows lbl (picodata c area), ?_, ?_⟩
  · have : ¬ c.version > 255 := by omega
    simp [toPixels, hb, bind, Except.bind, this, pure, Except.pure]
  · have htake := (List.prefix_iff_eq_take.mp
      (stego_prefix lbl w (picodata c area) hrows (by rw [hpl]; exact hroom))).symm
    rw [hpl] at htake
    exact fromPixels_of_take _ c area hgfx hgff hmap hsfx hmusic hver ha
      (by rw [decRows_encRows_length lbl w _ hrows]; exact hroom) htake n code sz hcode

end Pico.C04
