import PicoVerif.Lemmas.C03Note
import PicoVerif.Model.P8File
import PicoVerif.Props.C15
/-! Lemmas for C03.

Part 1 (`Pico.Sections`): the section codec round trips (gfx, gff/map, music, sfx).
Part 2 (`Pico.C03L`): file-level lemmas — the written `.p8` file is a list of LF-terminated lines, the
reader's line splitter recovers them, the section scanner files them under their headers, and the section
decoders give back the cart. -/
namespace Pico.Sections

/-! ### gfx -/

theorem swap_byte : ∀ b : UInt8,
    ((swapNibbles b).toNat / 16 == b.toNat % 16 && (swapNibbles b).toNat % 16 == b.toNat / 16) = true :=
  forall_u8 _ (by decide +kernel)

theorem swapPairs_toHex (row : Bytes) : swapPairs (toHex (row.map swapNibbles)) = toHex row := by
  induction row with
  | nil => rfl
  | cons b bs ih =>
    have := swap_byte b
    simp only [Bool.and_eq_true, beq_iff_eq] at this
    simp only [List.map_cons, toHex, swapPairs, ih, this.1, this.2]

theorem gfxLine_row (row : Bytes) (h : row.length = 64) :
    gfxLine (toHex (row.map swapNibbles) ++ [LF]) = .ok (some row) := by
  have hl : (toHex (row.map swapNibbles)).length = 128 := by simp [toHex_length, h]
  have hr : rstrip (toHex (row.map swapNibbles) ++ [10]) = toHex (row.map swapNibbles) :=
    rstrip_hexline _ (toHex_allHex _)
  unfold gfxLine
  simp only [LF, List.length_append, hl, List.length_singleton, hr, swapPairs_toHex, fromHex_toHex]
  simp

theorem gfxFromLines_rows (rows : List Bytes) (h : ∀ r ∈ rows, r.length = 64) (tail : List Bytes)
    (htail : gfxFromLines tail = .ok []) :
    gfxFromLines (rows.map (fun row => toHex (row.map swapNibbles) ++ [LF]) ++ tail) = .ok rows.flatten := by
  induction rows with
  | nil => simpa using htail
  | cons r rs ih =>
    have h1 := gfxLine_row r (h r (by simp))
    have h2 := ih (fun x hx => h x (by simp [hx]))
    simp only [List.map_cons, List.cons_append, gfxFromLines, h1, h2, bind, Except.bind, pure, Except.pure]
    simp

theorem gfxFromLines_blank : gfxFromLines [[10]] = .ok [] := by
  simp [gfxFromLines, gfxLine, bind, Except.bind, pure, Except.pure]

theorem gfx_rt_tail (m : Bytes) (h : m.length = 0x2000) (tail : List Bytes)
    (htail : gfxFromLines tail = .ok []) : gfxFromLines (gfxToLines m ++ tail) = .ok m := by
  have hg : Gen.hexLineLenGfx = 64 := by decide
  unfold gfxToLines
  rw [hg]
  have hc := chunks_exact 64 (by omega) 128 m (by omega)
  rw [gfxFromLines_rows _ hc.2 tail htail, chunks_flatten 64 (by omega)]

/-! ### gff / map -/

theorem hexFromLines_rows (rows : List Bytes) :
    hexFromLines (rows.map (fun row => toHex row ++ [LF])) = .ok rows.flatten := by
  induction rows with
  | nil => rfl
  | cons r rs ih =>
    have hr : rstrip (toHex r ++ [10]) = toHex r := rstrip_hexline _ (toHex_allHex _)
    simp only [List.map_cons, hexFromLines, LF, hr, fromHex_toHex]
    rw [show (List.map (fun row => toHex row ++ [10]) rs) = List.map (fun row => toHex row ++ [LF]) rs from rfl, ih]
    simp [bind, Except.bind, pure, Except.pure]

/-! ### music -/

theorem hexByte0_hex (b : UInt8) : hexByte0 [hexDigit (b.toNat / 16), hexDigit (b.toNat % 16)] = .ok b := by
  have h := byte_hex_rt b
  simp only [byteHexRtOK, beq_iff_eq] at h
  unfold hexByte0
  cases h1 : unhexDigit (hexDigit (b.toNat / 16)) <;> simp [h1] at h ⊢
  cases h2 : unhexDigit (hexDigit (b.toNat % 16)) <;> simp [h2] at h ⊢
  exact h

theorem isHex_ne_32 {x : UInt8} (h : isHexLower x = true) : (x != 32) = true := by
  have := isHex_not_space h
  simp only [isPySpace, Bool.or_eq_false_iff] at this
  simp [bne, this.1]

theorem hexDigit_ne_32 (n : Nat) (h : n < 16) : (hexDigit n != 32) = true :=
  isHex_ne_32 (hexDigit_isHex n h)

theorem hexDigit_beq_32 (n : Nat) (h : n < 16) : (hexDigit n == 32) = false := by
  have := hexDigit_ne_32 n h
  simpa [bne] using this

theorem beq_32_hexDigit (n : Nat) (h : n < 16) : ((32 : UInt8) == hexDigit n) = false := by
  have := hexDigit_beq_32 n h
  rw [Bool.eq_false_iff] at this ⊢
  intro h'; apply this; simp at h' ⊢; exact h'.symm

theorem hi_lt (b : UInt8) : b.toNat / 16 < 16 := by have := b.toNat_lt; omega
theorem lo_lt (b : UInt8) : b.toNat % 16 < 16 := by omega

theorem bit7 : ∀ c : UInt8, ((c &&& 128) >>> 7 == 0 || (c &&& 128) >>> 7 == 1) = true :=
  forall_u8 _ (by decide +kernel)

theorem bit7_restore : ∀ c : UInt8, (((c &&& (127 : UInt8)) ||| (((c &&& (128 : UInt8)) >>> (7 : UInt8)) <<< (7 : UInt8))) == c) = true :=
  forall_u8 _ (by decide +kernel)

theorem flags_bits (s r n : UInt8) (hs : s = 0 ∨ s = 1) (hr : r = 0 ∨ r = 1) (hn : n = 0 ∨ n = 1) :
    let flags := (s <<< 2) ||| (r <<< 1) ||| n
    (flags &&& 4) >>> 2 = s ∧ (flags &&& 2) >>> 1 = r ∧ flags &&& 1 = n := by
  rcases hs with rfl | rfl <;> rcases hr with rfl | rfl <;> rcases hn with rfl | rfl <;> decide

theorem musicLine_enc (c1 c2 c3 c4 : UInt8) :
    musicLine (toHex [(((c3 &&& 128) >>> 7) <<< 2) ||| (((c2 &&& 128) >>> 7) <<< 1) ||| ((c1 &&& 128) >>> 7)] ++ [32]
      ++ toHex [c1 &&& 127, c2 &&& 127, c3 &&& 127, c4 &&& 127] ++ [LF])
    = .ok (some [c1, c2, c3, c4 &&& 127]) := by
  generalize hf : (((c3 &&& 128) >>> 7) <<< 2) ||| (((c2 &&& 128) >>> 7) <<< 1) ||| ((c1 &&& 128) >>> 7) = flags
  have hb (c : UInt8) : (c &&& 128) >>> 7 = 0 ∨ (c &&& 128) >>> 7 = 1 := by
    have := bit7 c; simpa using this
  have hfl := flags_bits _ _ _ (hb c3) (hb c2) (hb c1)
  simp only [hf] at hfl
  obtain ⟨f3, f2, f1⟩ := hfl
  have r1 : (c1 &&& (127 : UInt8)) ||| (((c1 &&& (128 : UInt8)) >>> (7 : UInt8)) <<< (7 : UInt8)) = c1 := by have := bit7_restore c1; simpa using this
  have r2 : (c2 &&& (127 : UInt8)) ||| (((c2 &&& (128 : UInt8)) >>> (7 : UInt8)) <<< (7 : UInt8)) = c2 := by have := bit7_restore c2; simpa using this
  have r3 : (c3 &&& (127 : UInt8)) ||| (((c3 &&& (128 : UInt8)) >>> (7 : UInt8)) <<< (7 : UInt8)) = c3 := by have := bit7_restore c3; simpa using this
  have hfx : fromHex [hexDigit (flags.toNat / 16), hexDigit (flags.toNat % 16)] = some [flags] := fromHex_toHex [flags]
  unfold musicLine
  simp only [toHex, LF, List.cons_append, List.nil_append, List.contains_cons, List.takeWhile_cons, List.dropWhile_cons,
    beq_32_hexDigit _ (hi_lt _), beq_32_hexDigit _ (lo_lt _), if_true, hexDigit_ne_32 _ (hi_lt _), hexDigit_ne_32 _ (lo_lt _)]
  simp only [beq_self_eq_true, Bool.or_true, Bool.not_true, bne_self_eq_false, Bool.false_eq_true, if_false,
    List.drop_succ_cons, List.drop_zero, List.contains_nil, Bool.or_false, show ((32 : UInt8) == 10) = false by decide, List.contains_cons, beq_32_hexDigit _ (hi_lt _), beq_32_hexDigit _ (lo_lt _),
    List.takeWhile_nil, hfx, pySlice, List.take_succ_cons, List.take_zero, hexByte0_hex,
    bind, Except.bind, pure, Except.pure, f1, f2, f3, r1, r2, r3]

theorem musicFromLines_blank : musicFromLines [[10]] = .ok [] := by
  simp [musicFromLines, musicLine, bind, Except.bind, pure, Except.pure]

theorem music_rt_tail (tail : List Bytes) (htail : musicFromLines tail = .ok []) (m : Bytes) (h : m.length % 4 = 0) :
    ∃ ls, musicToLines m = some ls ∧ musicFromLines (ls ++ tail) = .ok (musicNorm m) := by
  fun_induction musicToLines m with
  | case1 => exact ⟨[], rfl, by simpa [musicNorm] using htail⟩
  | case2 c1 c2 c3 c4 rest fstop frepeat fnext flags ih =>
    obtain ⟨ls, h1, h2⟩ := ih (by simp at h; omega)
    refine ⟨(toHex [flags] ++ [32] ++ toHex [c1 &&& 127, c2 &&& 127, c3 &&& 127, c4 &&& 127] ++ [LF]) :: ls, by simp [h1], ?_⟩
    have := musicLine_enc c1 c2 c3 c4
    simp only [List.cons_append, musicFromLines, flags, fstop, frepeat, fnext, this, h2, musicNorm, bind, Except.bind, pure, Except.pure]
    simp
  | case3 l h1 h2 =>
    exfalso
    match l, h1, h2, h with
    | [], h1, _, _ => exact h1 rfl
    | [_], _, _, h => simp at h
    | [_, _], _, _, h => simp at h
    | [_, _, _], _, _, h => simp at h
    | a :: b :: c :: d :: r, _, h2, _ => exact h2 a b c d r rfl

/-! ### sfx -/

theorem hexInt1 : ∀ n, n < 16 → hexInt [hexDigit n] = some n := by decide +kernel

theorem hexInt2_tbl : ∀ b : UInt8, (hexInt [hexDigit (b.toNat / 16), hexDigit (b.toNat % 16)] == some b.toNat) = true :=
  forall_u8 _ (by decide +kernel)

theorem hexInt2 (b : UInt8) : hexInt [hexDigit (b.toNat / 16), hexDigit (b.toNat % 16)] = some b.toNat := by
  have := hexInt2_tbl b; simpa using this

theorem notesText_length : ∀ (n : Nat) (l : Bytes), l.length = 2 * n → (notesText l).length = 5 * n := by
  intro n
  induction n with
  | zero => intro l h; have : l = [] := List.length_eq_zero_iff.mp (by simpa using h); subst this; rfl
  | succ n ih =>
    intro l h
    match l, h with
    | lsb :: msb :: l', h =>
      have := ih l' (by simp at h; omega)
      simp [notesText, noteText, getNote, toHex, this]; omega

theorem parseNotes_enc : ∀ (n : Nat) (l : Bytes) (tail : Bytes), l.length = 2 * n →
    parseNotes n (notesText l ++ tail) = .ok l := by
  intro n
  induction n with
  | zero => intro l tail h; have : l = [] := List.length_eq_zero_iff.mp (by simpa using h); subst this; rfl
  | succ n ih =>
    intro l tail h
    match l, h with
    | lsb :: msb :: l', h =>
      have ih' := ih l' tail (by simp at h; omega)
      have hn := note_rt lsb msb
      simp only [noteOK, beq_iff_eq] at hn
      simp only [notesText, noteText, getNote, toHex, List.cons_append, List.nil_append, parseNotes,
        List.take_succ_cons, List.take_zero, List.drop_succ_cons, List.drop_zero,
        hexInt2, hexInt1 _ (hi_lt _), hexInt1 _ (lo_lt _), hn, ih',
        bind, Except.bind, pure, Except.pure]

theorem u8_toNat_toUInt8 (a : UInt8) : a.toNat.toUInt8 = a := by simp

theorem sfxLine_enc (notes : Bytes) (a b c d : UInt8) (h : notes.length = 64) :
    sfxLine (sfxPatternLine (notes ++ [a, b, c, d])) = .ok (some (notes ++ [a, b, c, d])) := by
  have hd : (notes ++ [a, b, c, d]).drop 64 = [a, b, c, d] := by rw [← h]; exact List.drop_left
  have ht : (notes ++ [a, b, c, d]).take 64 = notes := by rw [← h]; exact List.take_left
  have hl := notesText_length 32 notes (by omega)
  have hp := parseNotes_enc 32 notes [10] (by omega)
  unfold sfxPatternLine sfxLine
  rw [hd, ht]
  simp only [toHex, LF, List.cons_append, List.nil_append, List.length_cons, List.length_append, hl,
    List.length_nil, List.take_succ_cons, List.take_zero, List.drop_succ_cons, List.drop_zero, hexInt2, hp,
    bind, Except.bind, pure, Except.pure, u8_toNat_toUInt8]
  simp

theorem sfxLine_pat (pat : Bytes) (h : pat.length = 68) : sfxLine (sfxPatternLine pat) = .ok (some pat) := by
  have h1 : pat = pat.take 64 ++ pat.drop 64 := (List.take_append_drop 64 pat).symm
  have h2 : (pat.drop 64).length = 4 := by simp [h]
  match hd : pat.drop 64, h2 with
  | [a, b, c, d], _ =>
    rw [hd] at h1
    rw [h1]
    exact sfxLine_enc _ a b c d (by simp [h])

theorem sfxPatterns_rows (rows : List Bytes) (h : ∀ r ∈ rows, r.length = 68) :
    sfxPatterns (rows.map sfxPatternLine) = .ok rows := by
  induction rows with
  | nil => rfl
  | cons r rs ih =>
    have h1 := sfxLine_pat r (h r (by simp))
    have h2 := ih (fun x hx => h x (by simp [hx]))
    simp only [List.map_cons, sfxPatterns, h1, h2, bind, Except.bind, pure, Except.pure]

theorem emptySfx_length : Gen.emptySfx.length = 4352 := by decide +kernel

theorem sfx_rt' (m : Bytes) (h : m.length = 0x1100) :
    ∃ ls, sfxToLines m = some ls ∧ sfxFromLines ls = .ok m := by
  have hc := chunks_exact 68 (by omega) 64 m (by omega)
  have ht : m.take (64 * 68) = m := List.take_of_length_le (by omega)
  refine ⟨(chunks 68 m).map sfxPatternLine, ?_, ?_⟩
  · unfold sfxToLines
    rw [ht]
    simp [h]
  · unfold sfxFromLines
    have hf := chunks_flatten 68 (by omega) m
    have hdrop : Gen.emptySfx.drop m.length = [] := List.drop_eq_nil_of_le (by rw [emptySfx_length]; omega)
    simp only [sfxPatterns_rows _ hc.2, bind, Except.bind, pure, Except.pure, hc.1, hf, hdrop]
    simp

end Pico.Sections

namespace Pico.C03L
open Pico.Sections Pico.P8File Pico.P8scii

abbrev T : Table := Gen.p8scii

/-! ### the P8SCII table on ASCII text -/

def asciiOK (x : UInt8) : Bool := x == 10 || (32 ≤ x && x < 127)

theorem spelling_ascii_tbl : ∀ x : UInt8, (!asciiOK x || spelling T x.toNat == [x.toNat]) = true :=
  forall_u8 _ (by decide +kernel)

theorem spelling_no_lf_tbl : ∀ x : UInt8, (x == 10 || !(spelling T x.toNat).contains 10) = true :=
  forall_u8 _ (by decide +kernel)

theorem spelling_ascii {x : UInt8} (h : asciiOK x = true) : spelling T x.toNat = [x.toNat] := by
  have := spelling_ascii_tbl x
  simpa [h] using this

theorem spelling_no_lf {x : UInt8} (h : x ≠ 10) : ∀ y ∈ spelling T x.toNat, y ≠ 10 := by
  have := spelling_no_lf_tbl x
  simp only [Bool.or_eq_true, beq_iff_eq, h, false_or, Bool.not_eq_true', List.contains_eq_mem,
    decide_eq_false_iff_not] at this
  intro y hy h10
  exact this (h10 ▸ hy)

theorem toUnicode_append (a b : Bytes) : toUnicode T (a ++ b) = toUnicode T a ++ toUnicode T b := by
  simp [toUnicode]

theorem toUnicode_flatten (ls : List Bytes) : toUnicode T ls.flatten = (ls.map (toUnicode T)).flatten := by
  induction ls with
  | nil => rfl
  | cons l ls ih => simp [toUnicode_append, ih]

theorem toUnicode_ascii (b : Bytes) (h : ∀ x ∈ b, asciiOK x = true) : toUnicode T b = asciiU b := by
  induction b with
  | nil => rfl
  | cons x xs ih =>
    have hx := spelling_ascii (h x (by simp))
    have := ih (fun y hy => h y (by simp [hy]))
    simp only [toUnicode, List.flatMap_cons, asciiU, List.map_cons] at this ⊢
    rw [hx, this]; rfl

theorem toUnicode_lf : toUnicode T [10] = [10] := by decide +kernel

theorem toUnicode_no_lf (a : Bytes) (h : ∀ x ∈ a, x ≠ 10) : ∀ y ∈ toUnicode T a, y ≠ 10 := by
  intro y hy
  simp only [toUnicode, List.mem_flatMap] at hy
  obtain ⟨x, hx, hy⟩ := hy
  exact spelling_no_lf (h x hx) y hy

def nl8 : UInt8 → Bool := (· == 10)
def nlU : Nat → Bool := (· == 10)

theorem toUnicode_line (b : Bytes) (h : IsLine nl8 b) : IsLine nlU (toUnicode T b) := by
  obtain ⟨a, x, rfl, ha, hx⟩ := h
  have hx' : x = 10 := by simpa [nl8] using hx
  subst hx'
  refine ⟨toUnicode T a, 10, by rw [toUnicode_append, toUnicode_lf], ?_, by simp [nlU]⟩
  intro y hy
  have := toUnicode_no_lf a (fun z hz => by have := ha z hz; simpa [nl8] using this) y hy
  simpa [nlU] using this

theorem natsToBytes_map (b : Bytes) : natsToBytes (b.map (·.toNat)) = b := by
  simp only [natsToBytes, List.map_map]
  exact List.map_id'' (fun x => by simp) b

theorem natsToBytes_lines (bl : List Bytes) : (bl.map (fun b => b.map (·.toNat))).map natsToBytes = bl := by
  rw [List.map_map]
  exact List.map_id'' (fun b => natsToBytes_map b) bl

/-! ### kinds of lines -/

/-- printable ASCII followed by LF -/
def textBody (a : Bytes) : Bool := a.all fun x => 32 ≤ x && x < 127
def TextLine (b : Bytes) : Prop := ∃ a, b = a ++ [10] ∧ textBody a = true

/-- hex digits and spaces followed by LF -/
def dataBody (a : Bytes) : Bool := a.all fun x => isHexLower x || x == 32
def DataLine (b : Bytes) : Prop := ∃ a, b = a ++ [10] ∧ dataBody a = true

theorem text_char : ∀ x : UInt8, (!(32 ≤ x && x < 127) || (asciiOK x && x != 10)) = true :=
  forall_u8 _ (by decide +kernel)
theorem data_char : ∀ x : UInt8, (!(isHexLower x || x == 32) || ((32 ≤ x && x < 127) && x != 95)) = true :=
  forall_u8 _ (by decide +kernel)

theorem dataBody_text {a : Bytes} (h : dataBody a = true) : textBody a = true := by
  simp only [dataBody, textBody, List.all_eq_true] at h ⊢
  intro x hx
  have := data_char x
  rw [h x hx] at this
  simp only [Bool.not_true, Bool.false_or] at this
  exact (Bool.and_eq_true _ _ ▸ this).1

theorem DataLine.text {b : Bytes} (h : DataLine b) : TextLine b := by
  obtain ⟨a, rfl, ha⟩ := h; exact ⟨a, rfl, dataBody_text ha⟩

theorem TextLine.ascii {b : Bytes} (h : TextLine b) : ∀ x ∈ b, asciiOK x = true := by
  obtain ⟨a, rfl, ha⟩ := h
  simp only [textBody, List.all_eq_true] at ha
  intro x hx
  rcases List.mem_append.mp hx with hx | hx
  · have := text_char x
    rw [ha x hx] at this
    simp only [Bool.not_true, Bool.false_or, Bool.and_eq_true] at this
    exact this.1
  · simp at hx; subst hx; decide

theorem TextLine.isLine {b : Bytes} (h : TextLine b) : IsLine nl8 b := by
  obtain ⟨a, rfl, ha⟩ := h
  simp only [textBody, List.all_eq_true] at ha
  refine ⟨a, 10, rfl, ?_, by decide⟩
  intro x hx
  have := text_char x
  rw [ha x hx] at this
  simp only [Bool.not_true, Bool.false_or, Bool.and_eq_true] at this
  have h2 := this.2
  simp only [nl8]
  simpa [bne] using h2

theorem TextLine.toU {b : Bytes} (h : TextLine b) : toUnicode T b = asciiU b := toUnicode_ascii b h.ascii

theorem sectionName_head (l : List Nat) (h : ∀ x y r, l = x :: y :: r → x ≠ 95) : sectionName l = none := by
  unfold sectionName
  split
  · rename_i hc
    obtain ⟨hlen, ht, _⟩ := hc
    match l, hlen, ht with
    | x :: y :: r, _, ht =>
      simp at ht
      exact absurd ht.1 (h x y r rfl)
  · rfl

theorem DataLine.nosec {b : Bytes} (h : DataLine b) : sectionName (toUnicode T b) = none := by
  rw [h.text.toU]
  obtain ⟨a, rfl, ha⟩ := h
  apply sectionName_head
  intro x y r hl
  cases a with
  | nil => simp [asciiU] at hl
  | cons z zs =>
    simp only [dataBody, List.all_cons, Bool.and_eq_true] at ha
    have := data_char z
    rw [ha.1] at this
    simp only [Bool.not_true, Bool.false_or, Bool.and_eq_true, bne_iff_ne] at this
    simp only [asciiU, List.cons_append, List.map_cons, List.cons.injEq] at hl
    rw [← hl.1]
    intro h95
    apply this.2
    exact UInt8.toNat_inj.mp h95

/-! ### the encoders produce data lines -/

theorem hexline_data (a : Bytes) (h : ∀ x ∈ a, isHexLower x = true) : DataLine (a ++ [LF]) := by
  refine ⟨a, rfl, ?_⟩
  simp only [dataBody, List.all_eq_true]
  intro x hx; simp [h x hx]

theorem gfxToLines_data (m : Bytes) : ∀ b ∈ gfxToLines m, DataLine b := by
  intro b hb
  simp only [gfxToLines, List.mem_map] at hb
  obtain ⟨row, _, rfl⟩ := hb
  exact hexline_data _ (toHex_allHex _)

theorem hexToLines_data (n : Nat) (m : Bytes) : ∀ b ∈ hexToLines n m, DataLine b := by
  intro b hb
  simp only [hexToLines, List.mem_map] at hb
  obtain ⟨row, _, rfl⟩ := hb
  exact hexline_data _ (toHex_allHex _)

theorem notesText_hex (l : Bytes) : ∀ x ∈ notesText l, isHexLower x = true := by
  fun_induction notesText l with
  | case1 lsb msb rest ih =>
    intro x hx
    rcases List.mem_append.mp hx with hx | hx
    · simp only [noteText, getNote] at hx
      rcases List.mem_append.mp hx with hx | hx
      · exact toHex_allHex _ x hx
      · simp at hx; subst hx; exact hexDigit_isHex _ (Nat.mod_lt _ (by omega))
    · exact ih x hx
  | case2 l h => intro x hx; simp at hx

theorem sfxToLines_data (m : Bytes) (ls : List Bytes) (h : sfxToLines m = some ls) : ∀ b ∈ ls, DataLine b := by
  unfold sfxToLines at h
  split at h
  · simp at h
  · simp only [Option.some.injEq] at h
    subst h
    intro b hb
    simp only [List.mem_map] at hb
    obtain ⟨pat, _, rfl⟩ := hb
    unfold sfxPatternLine
    apply hexline_data
    intro x hx
    rcases List.mem_append.mp hx with hx | hx
    · exact toHex_allHex _ x hx
    · exact notesText_hex _ x hx

theorem musicToLines_data (m : Bytes) : ∀ ls, musicToLines m = some ls → ∀ b ∈ ls, DataLine b := by
  fun_induction musicToLines m with
  | case1 => intro ls h b hb; simp at h; subst h; simp at hb
  | case2 c1 c2 c3 c4 rest fstop frepeat fnext flags ih =>
    intro ls h b hb
    simp only [Option.map_eq_some_iff] at h
    obtain ⟨t, ht, rfl⟩ := h
    rcases List.mem_cons.mp hb with hb | hb
    · subst hb
      refine ⟨toHex [flags] ++ [32] ++ toHex [c1 &&& 127, c2 &&& 127, c3 &&& 127, c4 &&& 127], rfl, ?_⟩
      simp only [dataBody, List.all_eq_true]
      intro x hx
      rcases List.mem_append.mp hx with hx | hx
      · rcases List.mem_append.mp hx with hx | hx
        · simp [toHex_allHex _ x hx]
        · simp at hx; subst hx; decide
      · simp [toHex_allHex _ x hx]
    · exact ih t ht b hb
  | case3 l h1 h2 => intro ls h; simp at h

theorem blank_data : DataLine [10] := ⟨[], rfl, rfl⟩

/-! ### decimal version number -/

def decVal (ds : List Nat) : Nat := ds.foldl (fun acc c => acc * 10 + (c - 48)) 0

theorem natToDec_spec (n : Nat) : natToDec n ≠ [] ∧ (∀ x ∈ natToDec n, 48 ≤ x.toNat ∧ x.toNat ≤ 57) ∧
    decVal (asciiU (natToDec n)) = n := by
  fun_induction natToDec n with
  | case1 n h =>
    refine ⟨by simp, ?_, ?_⟩
    · intro x hx; simp at hx; subst hx; simp; omega
    · simp [decVal, asciiU]; omega
  | case2 n h ih =>
    obtain ⟨_, h2, h3⟩ := ih
    refine ⟨by simp, ?_, ?_⟩
    · intro x hx
      rcases List.mem_append.mp hx with hx | hx
      · exact h2 x hx
      · simp at hx; subst hx; simp; omega
    · simp only [decVal, asciiU, List.map_append, List.foldl_append] at h3 ⊢
      rw [h3]; simp; omega

def verPrefix : Bytes := [118, 101, 114, 115, 105, 111, 110, 32]
def versionLine (v : Nat) : Bytes := verPrefix ++ natToDec v ++ [10]

theorem str_version : str "version " = asciiU verPrefix := by decide +kernel

theorem versionOf_line (ds : List Nat) (hne : ds ≠ []) (hd : ∀ c ∈ ds, 48 ≤ c ∧ c ≤ 57) :
    versionOf (asciiU verPrefix ++ ds ++ [10]) = some (decVal ds) := by
  have hp : asciiU verPrefix = [118, 101, 114, 115, 105, 111, 110, 32] := by decide
  have htw : (ds ++ [10]).takeWhile (fun c => decide (48 ≤ c) && decide (c ≤ 57)) = ds := by
    rw [List.takeWhile_append_of_pos (by intro c hc; have := hd c hc; simp [this.1, this.2])]
    simp
  unfold versionOf
  rw [str_version, hp]
  simp only [List.cons_append, List.nil_append, List.take_succ_cons, List.take_zero, List.drop_succ_cons,
    List.drop_zero, if_true, htw, List.drop_left]
  simp [hne, decVal]

theorem versionLine_text (v : Nat) : TextLine (versionLine v) := by
  refine ⟨verPrefix ++ natToDec v, rfl, ?_⟩
  simp only [textBody, List.all_append, Bool.and_eq_true]
  refine ⟨by decide, ?_⟩
  rw [List.all_eq_true]
  intro x hx
  have := (natToDec_spec v).2.1 x hx
  simp only [Bool.and_eq_true, decide_eq_true_eq, UInt8.le_iff_toNat_le, UInt8.lt_iff_toNat_lt]
  exact ⟨by simp; omega, by simp; omega⟩

theorem versionOf_versionLine (v : Nat) : versionOf (toUnicode T (versionLine v)) = some v := by
  rw [(versionLine_text v).toU]
  obtain ⟨h1, h2, h3⟩ := natToDec_spec v
  have := versionOf_line (asciiU (natToDec v)) (by simpa [asciiU] using h1)
    (by intro c hc; simp only [asciiU, List.mem_map] at hc; obtain ⟨x, hx, rfl⟩ := hc; exact h2 x hx)
  rw [h3] at this
  rw [← this]
  simp [versionLine, asciiU]

theorem header_text : TextLine Gen.headerTitle :=
  ⟨Gen.headerTitle.take 41, by decide +kernel, by decide +kernel⟩

/-! ### section headers -/

def hLua : Bytes := [95, 95, 108, 117, 97, 95, 95, 10]
def nLua : List Nat := [108, 117, 97]
theorem str_hLua : str "__lua__\n" = asciiU hLua := by decide +kernel
theorem str_nLua : str "lua" = nLua := by decide +kernel
theorem sec_hLua : sectionName (toUnicode T hLua) = some nLua := by decide +kernel
theorem text_hLua : TextLine hLua := ⟨[95, 95, 108, 117, 97, 95, 95], rfl, by decide⟩
def hGfx : Bytes := [95, 95, 103, 102, 120, 95, 95, 10]
def nGfx : List Nat := [103, 102, 120]
theorem str_hGfx : str "__gfx__\n" = asciiU hGfx := by decide +kernel
theorem str_nGfx : str "gfx" = nGfx := by decide +kernel
theorem sec_hGfx : sectionName (toUnicode T hGfx) = some nGfx := by decide +kernel
theorem text_hGfx : TextLine hGfx := ⟨[95, 95, 103, 102, 120, 95, 95], rfl, by decide⟩
def hLabel : Bytes := [95, 95, 108, 97, 98, 101, 108, 95, 95, 10]
def nLabel : List Nat := [108, 97, 98, 101, 108]
theorem str_hLabel : str "__label__\n" = asciiU hLabel := by decide +kernel
theorem str_nLabel : str "label" = nLabel := by decide +kernel
theorem sec_hLabel : sectionName (toUnicode T hLabel) = some nLabel := by decide +kernel
theorem text_hLabel : TextLine hLabel := ⟨[95, 95, 108, 97, 98, 101, 108, 95, 95], rfl, by decide⟩
def hGff : Bytes := [95, 95, 103, 102, 102, 95, 95, 10]
def nGff : List Nat := [103, 102, 102]
theorem str_hGff : str "__gff__\n" = asciiU hGff := by decide +kernel
theorem str_nGff : str "gff" = nGff := by decide +kernel
theorem sec_hGff : sectionName (toUnicode T hGff) = some nGff := by decide +kernel
theorem text_hGff : TextLine hGff := ⟨[95, 95, 103, 102, 102, 95, 95], rfl, by decide⟩
def hMap : Bytes := [95, 95, 109, 97, 112, 95, 95, 10]
def nMap : List Nat := [109, 97, 112]
theorem str_hMap : str "__map__\n" = asciiU hMap := by decide +kernel
theorem str_nMap : str "map" = nMap := by decide +kernel
theorem sec_hMap : sectionName (toUnicode T hMap) = some nMap := by decide +kernel
theorem text_hMap : TextLine hMap := ⟨[95, 95, 109, 97, 112, 95, 95], rfl, by decide⟩
def hSfx : Bytes := [95, 95, 115, 102, 120, 95, 95, 10]
def nSfx : List Nat := [115, 102, 120]
theorem str_hSfx : str "__sfx__\n" = asciiU hSfx := by decide +kernel
theorem str_nSfx : str "sfx" = nSfx := by decide +kernel
theorem sec_hSfx : sectionName (toUnicode T hSfx) = some nSfx := by decide +kernel
theorem text_hSfx : TextLine hSfx := ⟨[95, 95, 115, 102, 120, 95, 95], rfl, by decide⟩
def hMusic : Bytes := [95, 95, 109, 117, 115, 105, 99, 95, 95, 10]
def nMusic : List Nat := [109, 117, 115, 105, 99]
theorem str_hMusic : str "__music__\n" = asciiU hMusic := by decide +kernel
theorem str_nMusic : str "music" = nMusic := by decide +kernel
theorem sec_hMusic : sectionName (toUnicode T hMusic) = some nMusic := by decide +kernel
theorem text_hMusic : TextLine hMusic := ⟨[95, 95, 109, 117, 115, 105, 99, 95, 95], rfl, by decide⟩

/-! ### the section scanner -/

abbrev Sec := Bytes × List Nat × List Bytes

def secLines (ss : List Sec) : List Bytes := ss.flatMap (fun s => s.1 :: s.2.2)
def secResult (ss : List Sec) : Secs := ss.map (fun s => (s.2.1, s.2.2.map (fun b => b.map (·.toNat))))

theorem secsAppend_last (pre : Secs) (name : List Nat) (ls : List (List Nat)) (p : List Nat)
    (h : ∀ e ∈ pre, e.1 ≠ name) :
    secsAppend (pre ++ [(name, ls)]) name p = pre ++ [(name, ls ++ [p])] := by
  unfold secsAppend
  rw [List.map_append]
  congr 1
  · have : ∀ e ∈ pre, (if (e.1 == name) = true then (e.1, e.2 ++ [p]) else e) = id e := by
      intro e he; simp [h e he]
    rw [List.map_congr_left this]; simp
  · simp

theorem secsReset_new (pre : Secs) (name : List Nat) (h : ∀ e ∈ pre, e.1 ≠ name) :
    secsReset pre name = pre ++ [(name, [])] := by
  unfold secsReset
  have : pre.any (fun e => e.1 == name) = false := by
    rw [List.any_eq_false]; intro e he; simp [h e he]
  simp [this]

theorem scan_data (name : List Nat) (pre : Secs) (h : ∀ e ∈ pre, e.1 ≠ name) (rest : List (List Nat)) :
    ∀ (bl : List Bytes) (ls : List (List Nat)), (∀ b ∈ bl, sectionName (toUnicode T b) = none) →
    scanLines T (bl.map (toUnicode T) ++ rest) (some name) (pre ++ [(name, ls)])
      = scanLines T rest (some name) (pre ++ [(name, ls ++ bl.map (fun b => b.map (·.toNat)))]) := by
  intro bl
  induction bl with
  | nil => intro ls _; simp
  | cons b bl ih =>
    intro ls hns
    have h1 := hns b (by simp)
    have h2 : toP8 T (toUnicode T b) = some (b.map (·.toNat)) := Pico.C15.roundtrip b
    simp only [List.map_cons, List.cons_append, scanLines, h1, h2]
    rw [secsAppend_last pre name ls _ h, ih _ (fun x hx => hns x (by simp [hx]))]
    simp

theorem scan_secs (ss : List Sec) :
    (∀ s ∈ ss, sectionName (toUnicode T s.1) = some s.2.1) →
    (∀ s ∈ ss, ∀ b ∈ s.2.2, sectionName (toUnicode T b) = none) →
    (ss.map (·.2.1)).Nodup →
    ∀ (cur : Option (List Nat)) (pre : Secs), (∀ e ∈ pre, ∀ s ∈ ss, e.1 ≠ s.2.1) →
    scanLines T ((secLines ss).map (toUnicode T)) cur pre = .ok (pre ++ secResult ss) := by
  induction ss with
  | nil => intro _ _ _ cur pre _; simp [secLines, secResult, scanLines]
  | cons s ss ih =>
    intro hh hd hnd cur pre hpre
    have hs := hh s (by simp)
    have hpre' : ∀ e ∈ pre, e.1 ≠ s.2.1 := fun e he => hpre e he s (by simp)
    simp only [List.map_cons, List.nodup_cons] at hnd
    have hsec : secLines (s :: ss) = s.1 :: (s.2.2 ++ secLines ss) := by simp [secLines]
    rw [hsec]
    simp only [List.map_cons, List.map_append, scanLines, hs]
    rw [secsReset_new pre _ hpre', scan_data _ pre hpre' _ _ _ (hd s (by simp))]
    rw [ih (fun x hx => hh x (by simp [hx])) (fun x hx => hd x (by simp [hx])) hnd.2]
    · simp [secResult]
    · intro e he x hx
      rcases List.mem_append.mp he with he | he
      · exact hpre e he x (by simp [hx])
      · simp at he; subst he
        intro heq
        apply hnd.1
        simp only [List.mem_map]
        exact ⟨x, hx, heq.symm⟩

/-! ### Lua text -/

def normCode (code : Bytes) : Bytes := code ++ (if code.getLast? = some 10 then [] else [10])

theorem luaText_eq (code : Bytes) : luaText T code = toUnicode T (normCode code) := by
  unfold luaText normCode
  split
  · simp
  · rw [toUnicode_append, toUnicode_lf]

theorem normCode_lines (code : Bytes) : ∃ bl : List Bytes, (∀ b ∈ bl, IsLine nl8 b) ∧ normCode code = bl.flatten := by
  have : ∃ s, normCode code = s ++ [10] := by
    unfold normCode
    split
    · rename_i h
      obtain ⟨ys, hys⟩ := List.getLast?_eq_some_iff.mp h
      exact ⟨ys, by simp [hys]⟩
    · exact ⟨code, rfl⟩
  obtain ⟨s, hs⟩ := this
  obtain ⟨ls, h1, h2⟩ := exists_lines nl8 10 (by decide) s
  exact ⟨ls, h1, by rw [hs, h2]⟩

theorem split_toU (ls : List Bytes) (h : ∀ b ∈ ls, IsLine nl8 b) :
    splitLinesU (ls.map (toUnicode T)).flatten = ls.map (toUnicode T) := by
  apply splitLinesAux_lines' nlU
  intro l hl
  obtain ⟨b, hb, rfl⟩ := List.mem_map.mp hl
  exact toUnicode_line b (h b hb)

theorem luaLines_eq (code : Bytes) (bl : List Bytes) (h1 : ∀ b ∈ bl, IsLine nl8 b)
    (h2 : normCode code = bl.flatten) : splitLinesU (luaText T code) = bl.map (toUnicode T) := by
  rw [luaText_eq, h2, toUnicode_flatten]
  exact split_toU bl h1

/-! ### reading a file made of a header and sections -/

theorem read_eq (v : Nat) (ss : List Sec)
    (hhdr : ∀ s ∈ ss, IsLine nl8 s.1 ∧ sectionName (toUnicode T s.1) = some s.2.1)
    (hdat : ∀ s ∈ ss, ∀ b ∈ s.2.2, IsLine nl8 b ∧ sectionName (toUnicode T b) = none)
    (hnd : (ss.map (·.2.1)).Nodup) :
    readP8 T (([Gen.headerTitle, versionLine v] ++ secLines ss).map (toUnicode T)).flatten
      = applySecs (secResult ss) (emptyCart v) := by
  have hlines : ∀ b ∈ [Gen.headerTitle, versionLine v] ++ secLines ss, IsLine nl8 b := by
    intro b hb
    rcases List.mem_append.mp hb with hb | hb
    · simp at hb
      rcases hb with rfl | rfl
      · exact header_text.isLine
      · exact (versionLine_text v).isLine
    · simp only [secLines, List.mem_flatMap] at hb
      obtain ⟨s, hs, hb⟩ := hb
      rcases List.mem_cons.mp hb with rfl | hb
      · exact (hhdr s hs).1
      · exact (hdat s hs b hb).1
  have hscan := scan_secs ss (fun s hs => (hhdr s hs).2) (fun s hs b hb => (hdat s hs b hb).2) hnd none []
    (by intro e he; simp at he)
  unfold readP8
  rw [split_toU _ hlines]
  simp only [List.cons_append, List.nil_append, List.map_cons, header_text.toU, versionOf_versionLine, hscan,
    bind, Except.bind, List.nil_append]
  simp

/-! ### applying the scanned sections -/

theorem apply_lua (ls : List (List Nat)) (rest : Secs) (c : Cart) :
    applySecs ((nLua, ls) :: rest) c = applySecs rest { c with code := (ls.map natsToBytes).flatten } := by
  simp [applySecs, str_nLua]

theorem apply_gfx (ls : List (List Nat)) (rest : Secs) (c : Cart) (d : Bytes)
    (h : gfxFromLines (ls.map natsToBytes) = .ok d) :
    applySecs ((nGfx, ls) :: rest) c = applySecs rest { c with gfx := d } := by
  simp [applySecs, str_nLua, str_nGfx, nLua, nGfx, h, bind, Except.bind]

theorem apply_label (ls : List (List Nat)) (rest : Secs) (c : Cart) (d : Bytes)
    (h : gfxFromLines (ls.map natsToBytes) = .ok d) :
    applySecs ((nLabel, ls) :: rest) c = applySecs rest { c with label := some d } := by
  simp [applySecs, str_nLua, str_nGfx, str_nGff, str_nMap, str_nSfx, str_nMusic, str_nLabel,
    nLua, nGfx, nGff, nMap, nSfx, nMusic, nLabel, h, bind, Except.bind]

theorem apply_gff (ls : List (List Nat)) (rest : Secs) (c : Cart) (d : Bytes)
    (h : hexFromLines (ls.map natsToBytes) = .ok d) :
    applySecs ((nGff, ls) :: rest) c = applySecs rest { c with gff := d } := by
  simp [applySecs, str_nLua, str_nGfx, str_nGff, nLua, nGfx, nGff, h, bind, Except.bind]

theorem apply_map (ls : List (List Nat)) (rest : Secs) (c : Cart) (d : Bytes)
    (h : hexFromLines (ls.map natsToBytes) = .ok d) :
    applySecs ((nMap, ls) :: rest) c = applySecs rest { c with map := d } := by
  simp [applySecs, str_nLua, str_nGfx, str_nGff, str_nMap, nLua, nGfx, nGff, nMap, h, bind, Except.bind]

theorem apply_sfx (ls : List (List Nat)) (rest : Secs) (c : Cart) (d : Bytes)
    (h : sfxFromLines (ls.map natsToBytes) = .ok d) :
    applySecs ((nSfx, ls) :: rest) c = applySecs rest { c with sfx := d } := by
  simp [applySecs, str_nLua, str_nGfx, str_nGff, str_nMap, str_nSfx, nLua, nGfx, nGff, nMap, nSfx, h, bind, Except.bind]

theorem apply_music (ls : List (List Nat)) (rest : Secs) (c : Cart) (d : Bytes)
    (h : musicFromLines (ls.map natsToBytes) = .ok d) :
    applySecs ((nMusic, ls) :: rest) c = applySecs rest { c with music := d } := by
  simp [applySecs, str_nLua, str_nGfx, str_nGff, str_nMap, str_nSfx, str_nMusic,
    nLua, nGfx, nGff, nMap, nSfx, nMusic, h, bind, Except.bind]

/-! ### the written file -/

def cartSecs (c : Cart) (bl sfxL musL : List Bytes) : List Sec :=
  [(hLua, nLua, bl),
   (hGfx, nGfx, gfxToLines c.gfx ++ (match c.label with | none => [[10]] | some _ => []))] ++
  (match c.label with | none => [] | some l => [(hLabel, nLabel, gfxToLines l ++ [[10]])]) ++
  [(hGff, nGff, hexToLines Gen.hexLineLenGff c.gff), (hMap, nMap, hexToLines Gen.hexLineLenMap c.map),
   (hSfx, nSfx, sfxL), (hMusic, nMusic, musL ++ [[10]])]

theorem flat_toU (ls : List Bytes) (h : ∀ b ∈ ls, DataLine b) : toUnicode T ls.flatten = asciiU ls.flatten := by
  apply toUnicode_ascii
  intro x hx
  obtain ⟨b, hb, hx⟩ := List.mem_flatten.mp hx
  exact (h b hb).text.ascii x hx

theorem toU_lf_cons (X : Bytes) : toUnicode T (10 :: X) = 10 :: toUnicode T X := by
  have := toUnicode_append [10] X
  rw [toUnicode_lf] at this
  simpa using this

theorem write_eq (c : Cart) (bl sfxL musL : List Bytes)
    (hs : sfxToLines c.sfx = some sfxL) (hm : musicToLines c.music = some musL)
    (hbl : normCode c.code = bl.flatten) :
    writeP8 T c = some (([Gen.headerTitle, versionLine c.version] ++ secLines (cartSecs c bl sfxL musL)).map
      (toUnicode T)).flatten := by
  obtain ⟨version, code, gfx, gff, map, sfx, music, label⟩ := c
  dsimp only at hs hm hbl
  have hsd := sfxToLines_data _ _ hs
  have hmd := musicToLines_data _ _ hm
  have e1 := flat_toU _ (gfxToLines_data gfx)
  have e3 := flat_toU _ (hexToLines_data Gen.hexLineLenGff gff)
  have e4 := flat_toU _ (hexToLines_data Gen.hexLineLenMap map)
  have e5 := flat_toU _ hsd
  have e6 := flat_toU _ hmd
  have ev : toUnicode T (versionLine version) = asciiU verPrefix ++ asciiU (natToDec version) ++ [10] := by
    rw [(versionLine_text _).toU]; simp [versionLine, asciiU]
  have ec : toUnicode T bl.flatten = luaText T code := by rw [luaText_eq, hbl]
  unfold writeP8
  simp only [hs, hm, bind, Option.bind, pure]
  apply congrArg some
  rw [← toUnicode_flatten]
  cases label with
  | none =>
    simp only [cartSecs, secLines, List.flatMap_cons, List.flatMap_nil, List.cons_append, List.nil_append,
      List.flatten_cons, List.flatten_nil, List.flatten_append, List.append_assoc, toUnicode_append, List.append_nil]
    rw [header_text.toU, ev, text_hLua.toU, ec, text_hGfx.toU, e1, toU_lf_cons, toUnicode_append, text_hGff.toU,
      toUnicode_append, e3, toUnicode_append, text_hMap.toU, toUnicode_append, e4, toUnicode_append, text_hSfx.toU,
      toUnicode_append, e5, toUnicode_append, text_hMusic.toU, toUnicode_append, e6, toUnicode_lf]
    simp only [str_version, str_hLua, str_hGfx, str_hGff, str_hMap, str_hSfx, str_hMusic, List.append_assoc,
      List.cons_append, List.nil_append]
  | some l =>
    have e2 := flat_toU _ (gfxToLines_data l)
    simp only [cartSecs, secLines, List.flatMap_cons, List.flatMap_nil, List.cons_append, List.nil_append,
      List.flatten_cons, List.flatten_nil, List.flatten_append, List.append_assoc, toUnicode_append, List.append_nil]
    rw [header_text.toU, ev, text_hLua.toU, ec, text_hGfx.toU, e1, text_hLabel.toU, e2, toU_lf_cons, toUnicode_append, text_hGff.toU,
      toUnicode_append, e3, toUnicode_append, text_hMap.toU, toUnicode_append, e4, toUnicode_append, text_hSfx.toU,
      toUnicode_append, e5, toUnicode_append, text_hMusic.toU, toUnicode_append, e6, toUnicode_lf]
    simp only [str_version, str_hLua, str_hGfx, str_hLabel, str_hGff, str_hMap, str_hSfx, str_hMusic, List.append_assoc,
      List.cons_append, List.nil_append]

theorem hexFromLines_hexToLines (n : Nat) (hn : n ≠ 0) (m : Bytes) : hexFromLines (hexToLines n m) = .ok m := by
  unfold hexToLines
  rw [hexFromLines_rows, chunks_flatten n hn]

theorem roundtrip_core (c : Cart) (hgfx : c.gfx.length = 0x2000) (hsfx : c.sfx.length = 0x1100)
    (hmus : c.music.length % 4 = 0) (hlabel : ∀ l, c.label = some l → l.length = 0x2000)
    (hnosec : ∀ line ∈ splitLinesU (luaText T c.code), sectionName line = none) :
    ∃ f, writeP8 T c = some f ∧ readP8 T f = .ok (normCart c) := by
  obtain ⟨sfxL, hs1, hs2⟩ := sfx_rt' c.sfx hsfx
  obtain ⟨musL, hm1, hm2⟩ := music_rt_tail [[10]] musicFromLines_blank c.music hmus
  obtain ⟨bl, hbl1, hbl2⟩ := normCode_lines c.code
  have hll := luaLines_eq c.code bl hbl1 hbl2
  rw [hll] at hnosec
  have hblns : ∀ b ∈ bl, sectionName (toUnicode T b) = none :=
    fun b hb => hnosec _ (List.mem_map.mpr ⟨b, hb, rfl⟩)
  have hsd := sfxToLines_data _ _ hs1
  have hmd := musicToLines_data _ _ hm1
  have dl : ∀ {b : Bytes}, DataLine b → IsLine nl8 b ∧ sectionName (toUnicode T b) = none :=
    fun h => ⟨h.text.isLine, h.nosec⟩
  have hGffLen : Gen.hexLineLenGff ≠ 0 := by decide
  have hMapLen : Gen.hexLineLenMap ≠ 0 := by decide
  refine ⟨_, write_eq c bl sfxL musL hs1 hm1 hbl2, ?_⟩
  obtain ⟨version, code, gfx, gff, map, sfx, music, label⟩ := c
  dsimp only at *
  cases label with
  | none =>
    rw [read_eq]
    · simp only [cartSecs, secResult, List.cons_append, List.nil_append, List.map_cons, List.map_nil]
      rw [apply_lua, apply_gfx _ _ _ gfx (by rw [natsToBytes_lines]; exact gfx_rt_tail gfx hgfx [[10]] gfxFromLines_blank),
        apply_gff _ _ _ gff (by rw [natsToBytes_lines]; exact hexFromLines_hexToLines _ hGffLen gff),
        apply_map _ _ _ map (by rw [natsToBytes_lines]; exact hexFromLines_hexToLines _ hMapLen map),
        apply_sfx _ _ _ sfx (by rw [natsToBytes_lines]; exact hs2),
        apply_music _ _ _ (musicNorm music) (by rw [natsToBytes_lines]; exact hm2)]
      simp only [applySecs, natsToBytes_lines, ← hbl2, normCart, emptyCart, normCode]
    · intro s hs
      simp only [cartSecs, List.cons_append, List.nil_append, List.mem_cons, List.not_mem_nil, or_false] at hs
      rcases hs with rfl | rfl | rfl | rfl | rfl | rfl
      · exact ⟨text_hLua.isLine, sec_hLua⟩
      · exact ⟨text_hGfx.isLine, sec_hGfx⟩
      · exact ⟨text_hGff.isLine, sec_hGff⟩
      · exact ⟨text_hMap.isLine, sec_hMap⟩
      · exact ⟨text_hSfx.isLine, sec_hSfx⟩
      · exact ⟨text_hMusic.isLine, sec_hMusic⟩
    · intro s hs b hb
      simp only [cartSecs, List.cons_append, List.nil_append, List.mem_cons, List.not_mem_nil, or_false] at hs
      rcases hs with rfl | rfl | rfl | rfl | rfl | rfl
      · exact ⟨hbl1 b hb, hblns b hb⟩
      · rcases List.mem_append.mp hb with hb | hb
        · exact dl (gfxToLines_data _ b hb)
        · simp at hb; subst hb; exact dl blank_data
      · exact dl (hexToLines_data _ _ b hb)
      · exact dl (hexToLines_data _ _ b hb)
      · exact dl (hsd b hb)
      · rcases List.mem_append.mp hb with hb | hb
        · exact dl (hmd b hb)
        · simp at hb; subst hb; exact dl blank_data
    · simp only [cartSecs, List.cons_append, List.nil_append, List.map_cons, List.map_nil]
      decide
  | some l =>
    have hl := hlabel l rfl
    rw [read_eq]
    · simp only [cartSecs, secResult, List.cons_append, List.nil_append, List.map_cons, List.map_nil, List.append_nil]
      rw [apply_lua, apply_gfx _ _ _ gfx (by rw [natsToBytes_lines]; have := gfx_rt_tail gfx hgfx [] rfl; simpa using this),
        apply_label _ _ _ l (by rw [natsToBytes_lines]; exact gfx_rt_tail l hl [[10]] gfxFromLines_blank),
        apply_gff _ _ _ gff (by rw [natsToBytes_lines]; exact hexFromLines_hexToLines _ hGffLen gff),
        apply_map _ _ _ map (by rw [natsToBytes_lines]; exact hexFromLines_hexToLines _ hMapLen map),
        apply_sfx _ _ _ sfx (by rw [natsToBytes_lines]; exact hs2),
        apply_music _ _ _ (musicNorm music) (by rw [natsToBytes_lines]; exact hm2)]
      simp only [applySecs, natsToBytes_lines, ← hbl2, normCart, emptyCart, normCode]
    · intro s hs
      simp only [cartSecs, List.cons_append, List.nil_append, List.mem_cons, List.not_mem_nil, or_false] at hs
      rcases hs with rfl | rfl | rfl | rfl | rfl | rfl | rfl
      · exact ⟨text_hLua.isLine, sec_hLua⟩
      · exact ⟨text_hGfx.isLine, sec_hGfx⟩
      · exact ⟨text_hLabel.isLine, sec_hLabel⟩
      · exact ⟨text_hGff.isLine, sec_hGff⟩
      · exact ⟨text_hMap.isLine, sec_hMap⟩
      · exact ⟨text_hSfx.isLine, sec_hSfx⟩
      · exact ⟨text_hMusic.isLine, sec_hMusic⟩
    · intro s hs b hb
      simp only [cartSecs, List.cons_append, List.nil_append, List.mem_cons, List.not_mem_nil, or_false] at hs
      rcases hs with rfl | rfl | rfl | rfl | rfl | rfl | rfl
      · exact ⟨hbl1 b hb, hblns b hb⟩
      · simp only [List.append_nil] at hb
        exact dl (gfxToLines_data _ b hb)
      · rcases List.mem_append.mp hb with hb | hb
        · exact dl (gfxToLines_data _ b hb)
        · simp at hb; subst hb; exact dl blank_data
      · exact dl (hexToLines_data _ _ b hb)
      · exact dl (hexToLines_data _ _ b hb)
      · exact dl (hsd b hb)
      · rcases List.mem_append.mp hb with hb | hb
        · exact dl (hmd b hb)
        · simp at hb; subst hb; exact dl blank_data
    · simp only [cartSecs, List.cons_append, List.nil_append, List.map_cons, List.map_nil]
      decide


/-! ### normalisation is idempotent on what gets written -/

theorem and127_idem : ∀ c : UInt8, ((c &&& (127 : UInt8)) &&& (127 : UInt8) == c &&& (127 : UInt8)) = true :=
  forall_u8 _ (by decide +kernel)

theorem musicToLines_norm (m : Bytes) : musicToLines (musicNorm m) = musicToLines m := by
  fun_induction musicNorm m with
  | case1 c1 c2 c3 c4 rest ih =>
    have := and127_idem c4
    simp only [beq_iff_eq] at this
    simp only [musicToLines, ih, this]
  | case2 l h => rfl

theorem musicNorm_length (m : Bytes) : (musicNorm m).length = m.length := by
  fun_induction musicNorm m with
  | case1 c1 c2 c3 c4 rest ih => simp [ih]
  | case2 l h => rfl

theorem normCode_idem (code : Bytes) : normCode (normCode code) = normCode code := by
  have h : (normCode code).getLast? = some 10 := by
    unfold normCode
    split
    · rename_i h; simpa using h
    · simp
  have key : ∀ x : Bytes, x.getLast? = some 10 → normCode x = x := by
    intro x hx; unfold normCode; simp [hx]
  exact key _ h

theorem luaText_norm (code : Bytes) :
    luaText T (code ++ (if code.getLast? = some 10 then [] else [10])) = luaText T code := by
  have := normCode_idem code
  rw [luaText_eq, luaText_eq code]
  exact congrArg (toUnicode T) this

theorem write_norm (c : Cart) : writeP8 T (normCart c) = writeP8 T c := by
  unfold writeP8 normCart
  simp only [musicToLines_norm, luaText_norm]

end Pico.C03L
