import PicoVerif.Model.AstWriters
import PicoVerif.Lemmas.PegCover
/-! Lemmas for C09: the indent walk visits the leaves; `assemble` follows the significant tokens; the stages of the
formatter's regex pipeline only touch white space and keep line breaks. (No Mathlib.) -/
namespace Pico.Ast
open Pico.Lex Pico.Peg

/-! ### the indent walk -/

mutual
theorem walkInd_fst (toks : Array Tok) : ∀ (t : Tree) (d : Nat), (walkInd toks t d).map (·.1) = t.leaves
  | .leaf i, d => by simp [walkInd, Tree.leaves]
  | .node k s e cs, d => by
    rw [walkInd, Tree.leaves]
    exact walkIndL_fst toks cs _
theorem walkIndL_fst (toks : Array Tok) : ∀ (cs : List Tree) (ds : List Nat),
    (walkIndL toks cs ds).map (·.1) = leavesL cs
  | [], _ => by simp [walkIndL, leavesL]
  | t :: rest, ds => by
    rw [walkIndL, leavesL, List.map_append, walkInd_fst toks t _, walkIndL_fst toks rest _]
end

/-! ### `assemble` -/

theorem skipTrivia_le_of_sig (toks : Array Tok) (pos j : Nat) (hj : j < toks.size)
    (hsig : toks[j].trivia = false) (hpos : pos ≤ j) : skipTrivia toks pos ≤ j := by
  fun_induction skipTrivia toks pos with
  | case1 i hi ht ih =>
    apply ih
    rcases Nat.lt_or_ge i j with h | h
    · omega
    · have : i = j := by omega
      subst this; simp [ht] at hsig
  | case2 i hi ht => exact hpos
  | case3 i hi => exact hpos

theorem getD_default_eq (toks : Array Tok) (j : Nat) (hj : j < toks.size) : toks.getD j default = toks[j] := by
  simp [Array.getD_eq_getD_getElem?, hj]

theorem assemble_error_of_later_sig (fmt : RunFmt) (toks : Array Tok) (walk : List (Nat × Nat)) (pos : Nat)
    (acc : Bytes) (j : Nat) (hj : j < toks.size) (hsig : (toks.getD j default).trivia = false)
    (hafter : ∀ i ∈ walk.map (·.1), i < j) (hpos : pos ≤ j) :
    ∃ e, assemble fmt toks walk pos acc = .error e := by
  rw [getD_default_eq toks j hj] at hsig
  induction walk generalizing pos acc with
  | nil =>
    have := skipTrivia_le_of_sig toks pos j hj hsig hpos
    refine ⟨.parse, ?_⟩
    simp only [assemble]
    rw [if_pos (by omega)]
  | cons x rest ih =>
    obtain ⟨i, d⟩ := x
    simp only [assemble]
    split
    · exact ⟨_, rfl⟩
    · apply ih
      · intro k hk; exact hafter k (by simp at hk ⊢; right; exact hk)
      · have := hafter i (by simp); omega

theorem allTrivia_iff (toks : Array Tok) (a b : Nat) :
    allTrivia toks a b = true ↔ ∀ k, a ≤ k → k < b → (h : k < toks.size) → toks[k].trivia = true := by
  unfold allTrivia
  rw [Array.all_eq_true]
  constructor
  · intro h k hak hkb hk
    have hs : k - a < (toks.extract a b).size := by simp; omega
    have := h (k - a) hs
    simpa [show a + (k - a) = k by omega] using this
  · intro h i hi
    simp at hi
    simp only [Array.getElem_extract]
    exact h (a + i) (by omega) (by omega) (by omega)

theorem sigIdx_eq_nil_of_allTrivia (toks : Array Tok) (a b : Nat) (h : allTrivia toks a b = true) :
    sigIdx toks a b = [] := by
  rw [allTrivia_iff] at h
  unfold sigIdx
  rw [List.filter_eq_nil_iff]
  intro k hk
  rw [List.mem_range'_1] at hk
  unfold sig
  split
  · rename_i hks; simp [h k hk.1 (by omega) hks]
  · simp

theorem sigIdx_single (toks : Array Tok) (i : Nat) (hi : i < toks.size) (hs : toks[i].trivia = false) :
    sigIdx toks i (i + 1) = [i] := by
  simp [sigIdx, sig, hi, hs]

/-- where the walk ends: right after its last token, or `pos` if it is empty -/
def walkEnd (walk : List (Nat × Nat)) (pos : Nat) : Nat :=
  (walk.map (·.1)).getLast?.map (· + 1) |>.getD pos

theorem walkEnd_cons (i d : Nat) (rest : List (Nat × Nat)) (pos : Nat) :
    walkEnd ((i, d) :: rest) pos = walkEnd rest (i + 1) := by
  cases rest with
  | nil => simp [walkEnd]
  | cons y ys =>
    simp only [walkEnd, List.map_cons, List.getLast?_cons_cons]
    rw [List.getLast?_eq_some_getLast (by simp)]
    simp

/-- the significant-token part of `output_shape`, under the hypothesis that the walked tokens are significant
(`assemble` does not check this itself) -/
theorem assemble_sig (fmt : RunFmt) (toks : Array Tok) (walk : List (Nat × Nat)) (pos : Nat) (acc out : Bytes)
    (hsig : ∀ i ∈ walk.map (·.1), (toks.getD i default).trivia = false)
    (h : assemble fmt toks walk pos acc = .ok out) :
    pos ≤ walkEnd walk pos ∧ walk.map (·.1) = sigIdx toks pos (walkEnd walk pos) ∧
      skipTrivia toks (walkEnd walk pos) ≥ toks.size := by
  induction walk generalizing pos acc with
  | nil =>
    simp only [assemble] at h
    split at h
    · simp at h
    · simp [walkEnd, sigIdx_self]; omega
  | cons x rest ih =>
    obtain ⟨i, d⟩ := x
    simp only [assemble] at h
    split at h
    · simp at h
    · rename_i hc
      simp only [not_or, Nat.not_lt, ge_iff_le, Nat.not_le, Bool.not_eq_true, Bool.not_eq_false'] at hc
      obtain ⟨h1, h2, h3⟩ := hc
      have hs := hsig i (by simp)
      rw [getD_default_eq toks i h2] at hs
      obtain ⟨ih1, ih2, ih3⟩ := ih (i + 1) _ (fun k hk => hsig k (by simp at hk ⊢; right; exact hk)) h
      rw [walkEnd_cons]
      refine ⟨by omega, ?_, ih3⟩
      rw [← sigIdx_append toks h1 (show i ≤ walkEnd rest (i + 1) by omega),
        sigIdx_eq_nil_of_allTrivia toks pos i h3,
        ← sigIdx_append toks (Nat.le_succ i) ih1, sigIdx_single toks i h2 hs, ← ih2]
      simp

/-! ### splitting at a run of bytes -/

theorem take_spanLen (p : UInt8 → Bool) (s : Bytes) : s.take (spanLen p s) = s.takeWhile p := by
  unfold spanLen
  induction s with
  | nil => rfl
  | cons b s ih =>
    by_cases h : p b = true
    · simp [h, ih]
    · simp [h]

theorem drop_spanLen (p : UInt8 → Bool) (s : Bytes) : s.drop (spanLen p s) = s.dropWhile p := by
  unfold spanLen
  induction s with
  | nil => rfl
  | cons b s ih =>
    by_cases h : p b = true
    · simp [h, ih]
    · simp [h]

theorem mem_takeWhile_imp {p : UInt8 → Bool} {s : Bytes} {b : UInt8} (h : b ∈ s.takeWhile p) : p b = true := by
  have := List.all_takeWhile (p := p) (l := s)
  rw [List.all_eq_true] at this
  exact this b h

/-- `s` = its leading run of `p` bytes, then the rest -/
theorem lead_split (p : UInt8 → Bool) (s : Bytes) :
    ∃ sp, (∀ b ∈ sp, p b = true) ∧ sp.length = spanLen p s ∧ s = sp ++ s.drop (spanLen p s) := by
  refine ⟨s.takeWhile p, fun b hb => mem_takeWhile_imp hb, rfl, ?_⟩
  rw [drop_spanLen, List.takeWhile_append_dropWhile]

/-- `s` = a body, then its trailing run of `p` bytes -/
theorem trail_split (p : UInt8 → Bool) (s : Bytes) :
    ∃ tl, (∀ b ∈ tl, p b = true) ∧ tl.length = spanLen p s.reverse ∧
      s = s.take (s.length - spanLen p s.reverse) ++ tl ∧ s.drop (s.length - spanLen p s.reverse) = tl := by
  have h0 : ∃ B T, s = B ++ T ∧ (∀ b ∈ T, p b = true) ∧ T.length = spanLen p s.reverse := by
    refine ⟨(s.reverse.dropWhile p).reverse, (s.reverse.takeWhile p).reverse, ?_, ?_, by simp [spanLen]⟩
    · rw [← List.reverse_append, List.takeWhile_append_dropWhile, List.reverse_reverse]
    · intro b hb
      exact mem_takeWhile_imp (List.mem_reverse.mp hb)
  obtain ⟨B, T, hs, hT, hlen⟩ := h0
  generalize spanLen p s.reverse = n at *
  subst hs
  have : (B ++ T).length - n = B.length := by simp; omega
  rw [this]
  exact ⟨T, hT, hlen, by simp, by simp⟩

theorem c9_spacesThenDashes_some (s : Bytes) (n : Nat) (h : spacesThenDashes s = some n) :
    ∃ sp, (∀ b ∈ sp, b = 32) ∧ sp.length = n ∧ s = sp ++ 45 :: 45 :: s.drop (n + 2) := by
  unfold spacesThenDashes at h
  simp only at h
  split at h
  · rename_i hp
    injection h with h
    obtain ⟨sp, h1, h2, h3⟩ := lead_split (· == 32) s
    rw [h] at h2 h3 hp
    refine ⟨sp, fun b hb => by simpa using h1 b hb, h2, ?_⟩
    rw [List.isPrefixOf_iff_prefix] at hp
    obtain ⟨t, ht⟩ := hp
    have : s.drop (n + 2) = t := by
      rw [← List.drop_drop, ← ht]; rfl
    rw [this]
    conv => lhs; rw [h3, ← ht]
    rfl
  · simp at h

/-- a match of `<spaces>(--|//)`: the space run, the marker (one of the two), the rest -/
theorem spacesThenComment_split (s : Bytes) (n : Nat) (m : Bytes) (h : spacesThenComment s = some (n, m)) :
    ∃ sp, (∀ b ∈ sp, b = 32) ∧ sp.length = n ∧ (m = [45, 45] ∨ m = [47, 47]) ∧ s.drop n = m ++ s.drop (n + 2) ∧
      s = sp ++ s.drop n := by
  unfold spacesThenComment at h
  simp only at h
  obtain ⟨sp, h1, h2, h3⟩ := lead_split (· == 32) s
  have key : ∀ mk : Bytes, mk.length = 2 → mk.isPrefixOf (s.drop (spanLen (· == 32) s)) = true →
      s.drop (spanLen (· == 32) s) = mk ++ s.drop (spanLen (· == 32) s + 2) := by
    intro mk hl hp
    rw [List.isPrefixOf_iff_prefix] at hp
    obtain ⟨t, ht⟩ := hp
    have : s.drop (spanLen (· == 32) s + 2) = t := by
      rw [← List.drop_drop, ← ht, ← hl]; simp
    rw [this, ht]
  split at h
  · rename_i hp
    injection h with h; injection h with hn hm
    subst hn hm
    exact ⟨sp, fun b hb => by simpa using h1 b hb, h2, Or.inl rfl, key _ rfl hp, h3⟩
  · split at h
    · rename_i hp
      injection h with h; injection h with hn hm
      subst hn hm
      exact ⟨sp, fun b hb => by simpa using h1 b hb, h2, Or.inr rfl, key _ rfl hp, h3⟩
    · simp at h

/-! ### every stage of `normRun` changes white space only -/

/-- not a white-space byte -/
def nws (b : UInt8) : Bool := !(b == 32 || b == 9 || b == 13 || b == 10)
/-- the non-white-space bytes of a string -/
def strip (s : Bytes) : Bytes := s.filter nws

theorem strip_nil : strip [] = [] := rfl
theorem strip_append (a b : Bytes) : strip (a ++ b) = strip a ++ strip b := List.filter_append ..
theorem strip_cons_ws (b : UInt8) (s : Bytes) (h : nws b = false) : strip (b :: s) = strip s := by
  simp [strip, h]
theorem strip_cons_nws (b : UInt8) (s : Bytes) (h : nws b = true) : strip (b :: s) = b :: strip s := by
  simp [strip, h]
theorem strip_of_all_ws (s : Bytes) (h : ∀ b ∈ s, nws b = false) : strip s = [] := by
  simp only [strip, List.filter_eq_nil_iff]
  intro b hb; simp [h b hb]
theorem strip_spaces (s : Bytes) (h : ∀ b ∈ s, b = 32) : strip s = [] :=
  strip_of_all_ws s fun b hb => by rw [h b hb]; rfl
theorem strip_spaces' (s : Bytes) (h : ∀ b ∈ s, (b == 32) = true) : strip s = [] :=
  strip_spaces s fun b hb => by simpa using h b hb
theorem strip_replicate (n : Nat) : strip (List.replicate n 32) = [] :=
  strip_spaces _ fun _ hb => (List.mem_replicate.mp hb).2

theorem strip_map (f : UInt8 → UInt8) (hf : ∀ b, nws (f b) = nws b ∧ (nws b = true → f b = b)) (s : Bytes) :
    strip (s.map f) = strip s := by
  induction s with
  | nil => rfl
  | cons b s ih =>
    rw [List.map_cons]
    cases h : nws b with
    | true => rw [(hf b).2 h, strip_cons_nws _ _ h, strip_cons_nws _ _ h, ih]
    | false => rw [strip_cons_ws _ _ ((hf b).1.trans h), strip_cons_ws _ _ h, ih]

theorem strip_subTab (s : Bytes) : strip (subTab s) = strip s := by
  apply strip_map
  intro b
  by_cases h : b = 9
  · subst h; exact ⟨rfl, by decide⟩
  · simp [h]

theorem strip_subCR (s : Bytes) : strip (subCR s) = strip s := by
  apply strip_map
  intro b
  by_cases h : b = 13
  · subst h; exact ⟨rfl, by decide⟩
  · simp [h]

theorem strip_subCRLF (s : Bytes) : strip (subCRLF s) = strip s := by
  fun_induction subCRLF s with
  | case1 rest ih =>
    rw [strip_cons_ws 10 _ rfl, strip_cons_ws 13 _ rfl, strip_cons_ws 10 _ rfl, ih]
  | case2 b rest _ ih =>
    cases h : nws b with
    | true => rw [strip_cons_nws _ _ h, strip_cons_nws _ _ h, ih]
    | false => rw [strip_cons_ws _ _ h, strip_cons_ws _ _ h, ih]
  | case3 => rfl

theorem strip_subLFCR (s : Bytes) : strip (subLFCR s) = strip s := by
  fun_induction subLFCR s with
  | case1 rest ih =>
    rw [strip_cons_ws 10 _ rfl, strip_cons_ws 10 _ rfl, strip_cons_ws 13 _ rfl, ih]
  | case2 b rest _ ih =>
    cases h : nws b with
    | true => rw [strip_cons_nws _ _ h, strip_cons_nws _ _ h, ih]
    | false => rw [strip_cons_ws _ _ h, strip_cons_ws _ _ h, ih]
  | case3 => rfl

theorem strip_cons_congr (b : UInt8) (s t : Bytes) (h : strip s = strip t) : strip (b :: s) = strip (b :: t) := by
  cases hb : nws b with
  | true => rw [strip_cons_nws _ _ hb, strip_cons_nws _ _ hb, h]
  | false => rw [strip_cons_ws _ _ hb, strip_cons_ws _ _ hb, h]

theorem strip_dropSpacesBeforeLF (s : Bytes) : strip (dropSpacesBeforeLF s) = strip s := by
  fun_induction dropSpacesBeforeLF s with
  | case1 => rfl
  | case2 rest n _ ih =>
    obtain ⟨sp, h1, _, h3⟩ := lead_split (· == 32) rest
    rw [ih, strip_cons_ws 32 _ rfl]
    conv => rhs; rw [h3, strip_append, strip_spaces' sp h1]
    rfl
  | case3 rest n _ ih => exact strip_cons_congr _ _ _ ih
  | case4 b rest _ ih => exact strip_cons_congr _ _ _ ih

theorem strip_subStartComment (repl s : Bytes) (hr : strip repl = [45, 45]) :
    strip (subStartComment repl s) = strip s := by
  unfold subStartComment
  split
  · rename_i n hn
    obtain ⟨sp, h1, _, h3⟩ := c9_spacesThenDashes_some s n hn
    conv => rhs; rw [h3]
    rw [strip_append, strip_append, hr, strip_spaces sp h1, strip_cons_nws 45 _ rfl, strip_cons_nws 45 _ rfl]
    rfl
  · rfl

theorem strip_marker (m : Bytes) (hm : m = [45, 45] ∨ m = [47, 47]) : strip m = m := by
  rcases hm with rfl | rfl <;> rfl

theorem strip_subStartAnyComment (s : Bytes) : strip (subStartAnyComment s) = strip s := by
  unfold subStartAnyComment
  split
  · rename_i n m hn
    obtain ⟨sp, h1, _, _, _, h3⟩ := spacesThenComment_split s n m hn
    conv => rhs; rw [h3]
    rw [strip_append, strip_spaces sp h1]
    rfl
  · rfl

theorem strip_subLineComment (ind s : Bytes) (hi : strip ind = []) : strip (subLineComment ind s) = strip s := by
  fun_induction subLineComment ind s with
  | case1 => rfl
  | case2 rest n m hn ih =>
    obtain ⟨sp, h1, _, hm, h2, h3⟩ := spacesThenComment_split rest n m hn
    have hr : strip rest = m ++ strip (rest.drop (n + 2)) := by
      conv => lhs; rw [h3, h2]
      rw [strip_append, strip_spaces sp h1, strip_append, strip_marker m hm]
      rfl
    rw [strip_cons_ws 10 _ rfl, hr, strip_append, strip_append, strip_append, hi, ih, strip_marker m hm]
    rfl
  | case3 rest _ ih => exact strip_cons_congr _ _ _ ih
  | case4 b rest _ ih => exact strip_cons_congr _ _ _ ih

theorem strip_subFinalIndent (ind s : Bytes) (hi : strip ind = []) : strip (subFinalIndent ind s) = strip s := by
  unfold subFinalIndent
  simp only
  split
  · obtain ⟨tl, h1, _, h3, _⟩ := trail_split (· == 32) s
    conv => rhs; rw [h3]
    rw [strip_append, strip_append, hi, strip_spaces' tl h1]
  · rfl

theorem strip_subAllSpaces (s : Bytes) : strip (subAllSpaces s) = strip s := by
  unfold subAllSpaces
  split
  · rename_i h
    rw [List.all_eq_true] at h
    rw [strip_spaces' s h]; rfl
  · rfl

theorem strip_collapseLF (s : Bytes) : strip (collapseLF s) = strip s := by
  fun_induction collapseLF s with
  | case1 rest ih => rw [ih, strip_cons_ws 10 (10 :: 10 :: rest) rfl]
  | case2 b rest _ ih => exact strip_cons_congr _ _ _ ih
  | case3 => rfl

theorem strip_subTrailing (s : Bytes) : strip (subTrailing s) = strip s := by
  unfold subTrailing
  simp only
  split
  · rfl
  · obtain ⟨tl, h1, _, h3, _⟩ := trail_split (fun b => b == 32 || b == 10) s
    conv => rhs; rw [h3]
    rw [strip_append, strip_append]
    have ht : strip tl = [] := by
      apply strip_of_all_ws
      intro b hb
      have := h1 b hb
      simp only [Bool.or_eq_true, beq_iff_eq] at this
      rcases this with rfl | rfl <;> rfl
    rw [ht]
    congr 1
    split <;> rfl

theorem strip_normRun (w d : Nat) (s e : Bool) (r : Bytes) : strip (normRun w d s e r) = strip r := by
  unfold normRun
  simp only
  have e1 : strip (subCR (subLFCR (subCRLF (subTab r)))) = strip r := by
    rw [strip_subCR, strip_subLFCR, strip_subCRLF, strip_subTab]
  generalize subCR (subLFCR (subCRLF (subTab r))) = s1 at e1
  have hi := strip_replicate (w * d)
  generalize List.replicate (w * d) (32 : UInt8) = ind at hi
  have e2 := strip_dropSpacesBeforeLF s1
  generalize dropSpacesBeforeLF s1 = s2 at e2
  have e3 : strip (if (!s) = true then subStartComment [32, 32, 45, 45] s2 else s2) = strip s2 := by
    split
    · exact strip_subStartComment _ _ rfl
    · rfl
  generalize (if (!s) = true then subStartComment [32, 32, 45, 45] s2 else s2) = s3 at e3
  have e4 := strip_subLineComment ind s3 hi
  generalize subLineComment ind s3 = s4 at e4
  have e5 : strip (if s = true then subStartAnyComment s4 else s4) = strip s4 := by
    split
    · exact strip_subStartAnyComment _
    · rfl
  generalize (if s = true then subStartAnyComment s4 else s4) = s5 at e5
  have e6 := strip_subFinalIndent ind s5 hi
  generalize subFinalIndent ind s5 = s6 at e6
  have e7 : strip (if s = true then subAllSpaces s6 else s6) = strip s6 := by
    split
    · exact strip_subAllSpaces _
    · rfl
  generalize (if s = true then subAllSpaces s6 else s6) = s7 at e7
  have e8 := strip_collapseLF s7
  generalize collapseLF s7 = s8 at e8
  have e9 : strip (if e = true then subTrailing s8 else s8) = strip s8 := by
    split
    · exact strip_subTrailing _
    · rfl
  rw [e9, e8, e7, e6, e5, e4, e3, e2, e1]

/-! ### every stage of `normRun` keeps "contains a line break" -/

theorem lf_cons_congr (b : UInt8) (s t : Bytes) (h : (10 : UInt8) ∈ s ↔ (10 : UInt8) ∈ t) :
    (10 : UInt8) ∈ b :: s ↔ (10 : UInt8) ∈ b :: t := by
  simp only [List.mem_cons, h]

theorem lf_not_mem_spaces (sp : Bytes) (h : ∀ b ∈ sp, b = 32) : (10 : UInt8) ∉ sp := by
  intro hm; exact absurd (h 10 hm) (by decide)

theorem lf_not_mem_spaces' (sp : Bytes) (h : ∀ b ∈ sp, (b == 32) = true) : (10 : UInt8) ∉ sp :=
  lf_not_mem_spaces sp fun b hb => by simpa using h b hb

theorem lf_subTab (s : Bytes) : (10 : UInt8) ∈ subTab s ↔ (10 : UInt8) ∈ s := by
  unfold subTab
  rw [List.mem_map]
  constructor
  · rintro ⟨a, ha, h⟩
    split at h
    · exact absurd h (by decide)
    · subst h; exact ha
  · intro h; exact ⟨10, h, by decide⟩

theorem cr_subTab (s : Bytes) : (13 : UInt8) ∈ subTab s ↔ (13 : UInt8) ∈ s := by
  unfold subTab
  rw [List.mem_map]
  constructor
  · rintro ⟨a, ha, h⟩
    split at h
    · exact absurd h (by decide)
    · subst h; exact ha
  · intro h; exact ⟨13, h, by decide⟩

theorem brk_cons (b : UInt8) (s : Bytes) :
    ((10 : UInt8) ∈ b :: s ∨ (13 : UInt8) ∈ b :: s) ↔ ((b = 10 ∨ b = 13) ∨ ((10 : UInt8) ∈ s ∨ (13 : UInt8) ∈ s)) := by
  simp only [List.mem_cons]
  constructor
  · rintro ((h | h) | (h | h))
    · exact .inl (.inl h.symm)
    · exact .inr (.inl h)
    · exact .inl (.inr h.symm)
    · exact .inr (.inr h)
  · rintro ((h | h) | (h | h))
    · exact .inl (.inl h.symm)
    · exact .inr (.inl h.symm)
    · exact .inl (.inr h)
    · exact .inr (.inr h)

theorem brk_subCRLF (s : Bytes) :
    ((10 : UInt8) ∈ subCRLF s ∨ (13 : UInt8) ∈ subCRLF s) ↔ ((10 : UInt8) ∈ s ∨ (13 : UInt8) ∈ s) := by
  fun_induction subCRLF s with
  | case1 rest ih => simp
  | case2 b rest _ ih => rw [brk_cons, brk_cons, ih]
  | case3 => rfl

theorem brk_subLFCR (s : Bytes) :
    ((10 : UInt8) ∈ subLFCR s ∨ (13 : UInt8) ∈ subLFCR s) ↔ ((10 : UInt8) ∈ s ∨ (13 : UInt8) ∈ s) := by
  fun_induction subLFCR s with
  | case1 rest ih => simp
  | case2 b rest _ ih => rw [brk_cons, brk_cons, ih]
  | case3 => rfl

theorem lf_subCR (s : Bytes) : (10 : UInt8) ∈ subCR s ↔ ((10 : UInt8) ∈ s ∨ (13 : UInt8) ∈ s) := by
  unfold subCR
  rw [List.mem_map]
  constructor
  · rintro ⟨a, ha, h⟩
    split at h
    · rename_i h13; subst h13; exact .inr ha
    · subst h; exact .inl ha
  · rintro (h | h)
    · exact ⟨10, h, by decide⟩
    · exact ⟨13, h, by decide⟩

theorem lf_dropSpacesBeforeLF (s : Bytes) : (10 : UInt8) ∈ dropSpacesBeforeLF s ↔ (10 : UInt8) ∈ s := by
  fun_induction dropSpacesBeforeLF s with
  | case1 => rfl
  | case2 rest n hh ih =>
    have hm : (10 : UInt8) ∈ rest.drop n := List.mem_of_mem_head? hh
    rw [ih]
    exact ⟨fun _ => List.mem_cons_of_mem _ (List.mem_of_mem_drop hm), fun _ => hm⟩
  | case3 rest n _ ih => exact lf_cons_congr _ _ _ ih
  | case4 b rest _ ih => exact lf_cons_congr _ _ _ ih

theorem lf_subStartComment (repl s : Bytes) (hr : (10 : UInt8) ∉ repl) :
    (10 : UInt8) ∈ subStartComment repl s ↔ (10 : UInt8) ∈ s := by
  unfold subStartComment
  split
  · rename_i n hn
    obtain ⟨sp, h1, _, h3⟩ := c9_spacesThenDashes_some s n hn
    have := lf_not_mem_spaces sp h1
    conv => rhs; rw [h3]
    simp [hr, this]
  · rfl

theorem lf_subStartAnyComment (s : Bytes) : (10 : UInt8) ∈ subStartAnyComment s ↔ (10 : UInt8) ∈ s := by
  unfold subStartAnyComment
  split
  · rename_i n m hn
    obtain ⟨sp, h1, _, _, _, h3⟩ := spacesThenComment_split s n m hn
    have := lf_not_mem_spaces sp h1
    conv => rhs; rw [h3]
    simp [this]
  · rfl

theorem lf_subLineComment (ind s : Bytes) : (10 : UInt8) ∈ subLineComment ind s ↔ (10 : UInt8) ∈ s := by
  fun_induction subLineComment ind s with
  | case1 => rfl
  | case2 rest n m hn ih => simp
  | case3 rest _ ih => exact lf_cons_congr _ _ _ ih
  | case4 b rest _ ih => exact lf_cons_congr _ _ _ ih

theorem lf_subFinalIndent (ind s : Bytes) : (10 : UInt8) ∈ subFinalIndent ind s ↔ (10 : UInt8) ∈ s := by
  unfold subFinalIndent
  simp only
  split
  · rename_i h
    have hb := List.mem_of_getLast? h
    exact ⟨fun _ => List.mem_of_mem_take hb, fun _ => List.mem_append_left _ hb⟩
  · rfl

theorem lf_subAllSpaces (s : Bytes) : (10 : UInt8) ∈ subAllSpaces s ↔ (10 : UInt8) ∈ s := by
  unfold subAllSpaces
  split
  · rename_i h
    rw [List.all_eq_true] at h
    have := lf_not_mem_spaces' s h
    simp [this]
  · rfl

theorem lf_collapseLF (s : Bytes) : (10 : UInt8) ∈ collapseLF s ↔ (10 : UInt8) ∈ s := by
  fun_induction collapseLF s with
  | case1 rest ih => rw [ih]; simp
  | case2 b rest _ ih => exact lf_cons_congr _ _ _ ih
  | case3 => rfl

theorem lf_subTrailing (s : Bytes) : (10 : UInt8) ∈ subTrailing s ↔ (10 : UInt8) ∈ s := by
  unfold subTrailing
  simp only
  split
  · rfl
  · obtain ⟨tl, _, _, h3, h4⟩ := trail_split (fun b => b == 32 || b == 10) s
    rw [h4]
    conv => rhs; rw [h3]
    rw [List.mem_append, List.mem_append]
    by_cases h : (10 : UInt8) ∈ tl
    · simp [h]
    · simp [h]

theorem lf_normRun (w d : Nat) (s e : Bool) (r : Bytes) :
    (10 : UInt8) ∈ normRun w d s e r ↔ ((10 : UInt8) ∈ r ∨ (13 : UInt8) ∈ r) := by
  unfold normRun
  simp only
  have e1 : (10 : UInt8) ∈ subCR (subLFCR (subCRLF (subTab r))) ↔ ((10 : UInt8) ∈ r ∨ (13 : UInt8) ∈ r) := by
    rw [lf_subCR, brk_subLFCR, brk_subCRLF, lf_subTab, cr_subTab]
  generalize subCR (subLFCR (subCRLF (subTab r))) = s1 at e1
  generalize List.replicate (w * d) (32 : UInt8) = ind
  have e2 := lf_dropSpacesBeforeLF s1
  generalize dropSpacesBeforeLF s1 = s2 at e2
  have e3 : (10 : UInt8) ∈ (if (!s) = true then subStartComment [32, 32, 45, 45] s2 else s2) ↔ (10 : UInt8) ∈ s2 := by
    split
    · exact lf_subStartComment _ _ (by decide)
    · rfl
  generalize (if (!s) = true then subStartComment [32, 32, 45, 45] s2 else s2) = s3 at e3
  have e4 := lf_subLineComment ind s3
  generalize subLineComment ind s3 = s4 at e4
  have e5 : (10 : UInt8) ∈ (if s = true then subStartAnyComment s4 else s4) ↔ (10 : UInt8) ∈ s4 := by
    split
    · exact lf_subStartAnyComment _
    · rfl
  generalize (if s = true then subStartAnyComment s4 else s4) = s5 at e5
  have e6 := lf_subFinalIndent ind s5
  generalize subFinalIndent ind s5 = s6 at e6
  have e7 : (10 : UInt8) ∈ (if s = true then subAllSpaces s6 else s6) ↔ (10 : UInt8) ∈ s6 := by
    split
    · exact lf_subAllSpaces _
    · rfl
  generalize (if s = true then subAllSpaces s6 else s6) = s7 at e7
  have e8 := lf_collapseLF s7
  generalize collapseLF s7 = s8 at e8
  have e9 : (10 : UInt8) ∈ (if e = true then subTrailing s8 else s8) ↔ (10 : UInt8) ∈ s8 := by
    split
    · exact lf_subTrailing _
    · rfl
  rw [e9, e8, e7, e6, e5, e4, e3, e2, e1]

end Pico.Ast
