import PicoVerif.Model.Include
/-! Lemmas for C12: `splitSlash`/`comps` over concatenation, `normComps` composition, the accesses of
`includeLine`/`processIncludes`, the probes of `locateRequire.go`. -/
namespace Pico.Path

theorem splitSlash_ne_nil (p : P) : splitSlash p ≠ [] := by
  induction p with
  | nil => simp [splitSlash]
  | cons c rest ih =>
    rw [splitSlash]
    split
    · simp
    · split <;> simp

theorem splitSlash_append_slash (a b : P) : splitSlash (a ++ '/' :: b) = splitSlash a ++ splitSlash b := by
  induction a with
  | nil => simp [splitSlash]
  | cons c a' ih =>
    rw [List.cons_append, splitSlash, splitSlash, ih]
    split
    · simp
    · cases h : splitSlash a' with
      | nil => exact absurd h (splitSlash_ne_nil a')
      | cons x t => simp

theorem comps_append_slash (a b : P) : comps (a ++ '/' :: b) = comps a ++ comps b := by
  simp [comps, splitSlash_append_slash]

theorem comps_nil : comps [] = [] := by simp [comps, splitSlash]

theorem comps_rstrip_aux (r : P) : comps ((r.dropWhile (· == '/')).reverse) = comps r.reverse := by
  induction r with
  | nil => rfl
  | cons c r' ih =>
    rw [List.dropWhile_cons]
    split
    · rename_i hc
      have : c = '/' := by simpa using hc
      subst this
      rw [ih, List.reverse_cons, comps_append_slash, comps_nil, List.append_nil]
    · rfl

theorem comps_rstripSlash (root : P) : comps (rstripSlash root) = comps root := by
  have := comps_rstrip_aux root.reverse
  simpa [rstripSlash] using this

theorem within_comps (path root : P) (h : isWithin path root = true) : comps root <+: comps path := by
  unfold isWithin at h
  rw [List.isPrefixOf_iff_prefix] at h
  obtain ⟨rest, rfl⟩ := h
  rw [List.append_assoc, List.singleton_append, comps_append_slash, comps_rstripSlash]
  exact List.prefix_append _ _

theorem normComps_append (abs : Bool) (xs ys : List P) : ∀ acc,
    normComps abs (xs ++ ys) acc = normComps abs ys (normComps abs xs acc).reverse := by
  induction xs with
  | nil => intro acc; simp [normComps]
  | cons c rest ih =>
    intro acc
    rw [List.cons_append, normComps, normComps]
    split
    · exact ih _
    · split
      · exact ih _
      · exact ih _

theorem normComps_clean (abs : Bool) (cs : List P) (h : ∀ c ∈ cs, c ≠ ['.', '.']) : ∀ acc,
    normComps abs cs acc = acc.reverse ++ cs.filter (fun c => c ≠ [] ∧ c ≠ ['.']) := by
  induction cs with
  | nil => intro acc; simp [normComps]
  | cons c rest ih =>
    intro acc
    have hc : c ≠ ['.', '.'] := h c (by simp)
    have ih' := ih (fun x hx => h x (by simp [hx]))
    rw [normComps]
    split
    · rename_i h1
      rw [ih', List.filter_cons_of_neg]
      simpa [Classical.or_iff_not_imp_left] using h1
    · rename_i h1
      rw [if_pos (Or.inl hc), ih', List.filter_cons_of_pos]
      · simp
      · simpa [not_or] using h1

end Pico.Path

namespace Pico.Inc
open Pico.Path

theorem includeLine_accesses (fs : FS) (root dir : P) (line : Bytes) :
    ∀ a ∈ (includeLine fs root dir line).2, ∃ p, (a = .isfile p ∨ a = .open_ p) ∧ isWithin p root = true := by
  intro a ha
  unfold includeLine at ha
  split at ha
  · simp at ha
  · rename_i m hm
    simp only at ha
    split at ha
    · simp at ha
    · rename_i hw
      have hw' : isWithin (normpath (join dir (bytesToPath (m.path ++ m.ext)))) root = true := by
        simpa using hw
      split at ha
      · simp only [List.mem_singleton] at ha
        exact ⟨_, Or.inl ha, hw'⟩
      · split at ha
        · simp only [List.mem_cons, List.not_mem_nil, or_false] at ha
          rcases ha with ha | ha
          · exact ⟨_, Or.inl ha, hw'⟩
          · exact ⟨_, Or.inr ha, hw'⟩
        · split at ha <;>
          · simp only [List.mem_cons, List.not_mem_nil, or_false] at ha
            rcases ha with ha | ha
            · exact ⟨_, Or.inl ha, hw'⟩
            · exact ⟨_, Or.inr ha, hw'⟩

theorem processIncludes_accesses (fs : FS) (root dir : P) (lines : List Bytes) :
    ∀ a ∈ (processIncludes fs root dir lines).2, ∃ p, (a = .isfile p ∨ a = .open_ p) ∧ isWithin p root = true := by
  induction lines with
  | nil => intro a ha; simp [processIncludes] at ha
  | cons l rest ih =>
    intro a ha
    have hl := includeLine_accesses fs root dir l
    rw [processIncludes] at ha
    split at ha
    · rename_i e acc heq
      rw [heq] at hl
      exact hl a ha
    · rename_i ls acc heq
      rw [heq] at hl
      split at ha
      · rename_i e acc2 heq2
        rw [heq2] at ih
        rcases List.mem_append.1 ha with h | h
        · exact hl a h
        · exact ih a h
      · rename_i ls2 acc2 heq2
        rw [heq2] at ih
        rcases List.mem_append.1 ha with h | h
        · exact hl a h
        · exact ih a h

theorem locateRequire_go_probes (isFile : P → Bool) (cands : List P) : ∀ acc,
    ∃ k, (locateRequire.go isFile cands acc).2 = acc ++ (cands.take k).map Access.isfile := by
  induction cands with
  | nil => intro acc; exact ⟨0, by simp [locateRequire.go]⟩
  | cons c rest ih =>
    intro acc
    rw [locateRequire.go]
    split
    · exact ⟨1, by simp⟩
    · obtain ⟨k, hk⟩ := ih (acc ++ [.isfile c])
      exact ⟨k + 1, by rw [hk]; simp⟩

theorem requireRejected_false (p : Bytes) (h : requireRejected p = false) :
    p.head? ≠ some 47 ∧ ∀ part ∈ splitByte 47 p, part ≠ [46] ∧ part ≠ [46, 46] := by
  unfold requireRejected at h
  simp only [Bool.or_eq_false_iff, List.any_eq_false] at h
  obtain ⟨⟨_, h2⟩, h3⟩ := h
  refine ⟨by simpa using h2, ?_⟩
  intro part hp
  have := h3 part hp
  simpa using this

end Pico.Inc
