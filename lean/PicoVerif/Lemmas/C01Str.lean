import PicoVerif.Lemmas.C01Fwd
import PicoVerif.Props.C06
/-! Strings and block comments for C01: tokens read in two steps (delimiter, then body in a lexer mode). -/
namespace Pico.C01L
open Pico.Lex Pico.Wr


/-! ### `findSub` -/

theorem findSub_shift (pat s : Bytes) (i : Nat) : findSub pat s i = (findSub pat s 0).map (· + i) := by
  induction s generalizing i with
  | nil => simp only [findSub]; split <;> simp
  | cons c rest ih =>
    simp only [findSub]
    split
    · simp
    · rw [ih (i + 1), ih (0 + 1)]
      cases findSub pat rest 0 <;> simp; omega

theorem findSub_spec (pat s : Bytes) (k : Nat) (h : findSub pat s 0 = some k) :
    k + pat.length ≤ s.length ∧ pat <+: s.drop k := by
  induction s generalizing k with
  | nil =>
    simp only [findSub] at h
    split at h
    · rename_i he
      simp only [Option.some.injEq] at h; subst h
      have : pat = [] := by simpa using he
      subst this; simp
    · cases h
  | cons c rest ih =>
    simp only [findSub] at h
    split at h
    · rename_i hp
      simp only [Option.some.injEq] at h; subst h
      rw [List.isPrefixOf_iff_prefix] at hp
      exact ⟨by simpa using hp.length_le, by simpa using hp⟩
    · rw [findSub_shift] at h
      cases hr : findSub pat rest 0 with
      | none => rw [hr] at h; cases h
      | some k' =>
        rw [hr] at h
        simp only [Option.map_some, Nat.zero_add, Option.some.injEq] at h
        subst h
        obtain ⟨h1, h2⟩ := ih k' hr
        exact ⟨by simp; omega, by simpa using h2⟩

theorem prefix_take_append (pat s z : Bytes) (m : Nat) (hm : pat.length ≤ m) (hs : m ≤ s.length) :
    pat.isPrefixOf (s.take m ++ z) = pat.isPrefixOf s := by
  rw [Bool.eq_iff_iff, List.isPrefixOf_iff_prefix, List.isPrefixOf_iff_prefix]
  constructor
  · intro h
    have h1 : pat <+: s.take m :=
      List.prefix_of_prefix_length_le h (List.prefix_append _ _) (by simp; omega)
    exact h1.trans (List.take_prefix _ _)
  · intro h
    have : pat <+: s.take m := by
      rw [List.prefix_iff_eq_take] at h ⊢
      rw [List.take_take, Nat.min_eq_left hm]; exact h
    exact this.trans (List.prefix_append _ _)

/-- the first occurrence found in `s` is found again when everything after it is replaced -/
theorem findSub_stab (pat s : Bytes) (k : Nat) (hp : pat ≠ []) (h : findSub pat s 0 = some k) (z : Bytes) :
    findSub pat (s.take (k + pat.length) ++ z) 0 = some k := by
  induction s generalizing k with
  | nil =>
    simp only [findSub] at h
    split at h
    · rename_i he; exact absurd (by simpa using he) hp
    · cases h
  | cons c rest ih =>
    have hpl : 0 < pat.length := List.length_pos_iff.mpr hp
    obtain ⟨hlen, -⟩ := findSub_spec pat _ k h
    simp only [findSub] at h
    have htake : (c :: rest).take (k + pat.length) = c :: rest.take (k + pat.length - 1) := by
      rw [show k + pat.length = (k + pat.length - 1) + 1 by omega, List.take_succ_cons]; simp
    have hpre := prefix_take_append pat (c :: rest) z (k + pat.length) (by omega) hlen
    rw [htake] at hpre ⊢
    simp only [List.cons_append] at hpre ⊢
    simp only [findSub, hpre]
    split at h
    · rename_i hyp
      simp only [Option.some.injEq] at h; subst h; rw [if_pos hyp]
    · rename_i hnp
      rw [if_neg hnp]
      rw [findSub_shift] at h ⊢
      cases hr : findSub pat rest 0 with
      | none => rw [hr] at h; cases h
      | some k' =>
        rw [hr] at h
        simp only [Option.map_some, Nat.zero_add, Option.some.injEq] at h
        subst h
        rw [show k' + 1 + pat.length - 1 = k' + pat.length by omega, ih k' hr]
        simp



/-! ### quoted strings -/

theorem LexRun_quoted (q : UInt8) (v z : Bytes) (sigs : List Core) (hq : q = 34 ∨ q = 39) (hz : LexRun z sigs) :
    LexRun ([q] ++ ((escapeBody q v ++ [q]) ++ z)) ((.string, v, some q, none) :: sigs) := by
  have := LexRun_step2 [q] (escapeBody q v ++ [q]) z (.string, v, some q, none) false sigs
    (fun st1 => ∃ l c, st1.mode = .inStr q l c []) (by simp) (by simp) ?_ ?_ hz
  · simpa using this
  · intro st hm
    refine ⟨advance { st with mode := .inStr q st.line st.col [] } [q], ?_, by rw [advance_toks], ?_⟩
    · have hq' : q = 39 ∨ q = 34 := hq.symm
      have h91 : q ≠ 91 := by rcases hq with rfl | rfl <;> decide
      have h45 : q ≠ 45 := by rcases hq with rfl | rfl <;> decide
      unfold processToken
      simp [hm, List.isPrefixOf, h91, Ne.symm h45, processToken.normalMatch, hq']
    · exact ⟨st.line, st.col, by rw [advance_mode]⟩
  · rintro st1 ⟨l, c, hm⟩
    have hes := C06.echo_stable q hq v z
    have hlen : (escapeBody q v ++ q :: z).length + 1 = (escapeBody q v).length + z.length + 2 := by
      simp; omega
    have hs : escapeBody q v ++ [q] ++ z = escapeBody q v ++ q :: z := by simp
    refine ⟨advance { st1 with toks := st1.toks.push { kind := .string, data := v, quote := some q, line := l, col := c }, mode := .normal }
        ((escapeBody q v ++ q :: z).take ((escapeBody q v).length + 1)), ?_, ?_,
      { kind := .string, data := v, quote := some q, line := l, col := c }, ?_, rfl, rfl⟩
    · rw [hs]
      unfold processToken
      simp only [hm, hlen, hes]
      simp
    · rw [advance_mode]
    · rw [advance_toks]



/-! ### long-bracket strings and block comments -/

def longPat (n : Nat) : Bytes := [93] ++ List.replicate n 61 ++ [93]

/-- the closing bracket written after `data` is the first one the lexer finds -/
def LongOK (n : Nat) (data : Bytes) : Prop :=
  ∀ z, findSub (longPat n) (data ++ longPat n ++ z) 0 = some data.length

def BlockOK (w : Bytes) : Prop :=
  2 ≤ w.length ∧ ∀ z, findSub [93, 93] (w ++ z) 0 = some (w.length - 2)

theorem spanLen_replicate_eq (n : Nat) (rest : Bytes) :
    spanLen (· == 61) (List.replicate n 61 ++ 91 :: rest) = n := by
  rw [spanLen_append_all _ _ _ (by intro x hx; simp [List.eq_of_mem_replicate hx]), spanLen_cons]
  simp

theorem LexRun_long (n : Nat) (data z : Bytes) (sigs : List Core) (hok : LongOK n data) (hz : LexRun z sigs) :
    LexRun (([91] ++ List.replicate n 61 ++ [91]) ++ ((data ++ longPat n) ++ z))
      ((.string, data, none, some (List.replicate n 61)) :: sigs) := by
  have := LexRun_step2 ([91] ++ List.replicate n 61 ++ [91]) (data ++ longPat n) z
    (.string, data, none, some (List.replicate n 61)) false sigs
    (fun st1 => ∃ l c, st1.mode = .inLong (List.replicate n 61) l c []) (by simp) (by simp [longPat]) ?_ ?_ hz
  · simpa using this
  · intro st hm
    refine ⟨advance { st with mode := .inLong (List.replicate n 61) st.line st.col [] }
      (([91] ++ List.replicate n 61 ++ [91] ++ (data ++ longPat n ++ z)).take (n + 2)), ?_, by rw [advance_toks], ?_⟩
    · generalize data ++ longPat n ++ z = rest
      have hsp := spanLen_replicate_eq n rest
      have hdrop : (91 :: (List.replicate n 61 ++ 91 :: rest))[1 + n]? = some 91 := by
        rw [show 1 + n = n + 1 by omega, List.getElem?_cons_succ, List.getElem?_append_right (by simp)]
        simp
      unfold processToken
      simp only [hm]
      simp only [List.cons_append, List.nil_append, List.append_assoc, List.isPrefixOf]
      simp only [show ((45 : UInt8) == 91) = false by decide, Bool.false_and, Bool.false_eq_true, if_false, if_true, hsp,
        List.head?_drop, hdrop]
      simp
    · exact ⟨st.line, st.col, by rw [advance_mode]⟩
  · rintro st1 ⟨l, c, hm⟩
    have hf := hok z
    refine ⟨advance { st1 with toks := st1.toks.push { kind := .string, data := [] ++ (data ++ longPat n ++ z).take data.length, mlq := some (List.replicate n 61), line := l, col := c }, mode := .normal }
        ((data ++ longPat n ++ z).take (data.length + (List.replicate n 61).length + 2)), ?_, ?_,
      { kind := .string, data := [] ++ (data ++ longPat n ++ z).take data.length, mlq := some (List.replicate n 61), line := l, col := c }, ?_, ?_, rfl⟩
    · unfold processToken
      simp only [hm]
      rw [show [93] ++ List.replicate n 61 ++ [93] = longPat n from rfl, hf]
      simp [longPat]; omega
    · rw [advance_mode]
    · rw [advance_toks]
    · simp [core]

theorem LexRun_block (w z : Bytes) (sigs : List Core) (hok : BlockOK w) (hz : LexRun z sigs) :
    LexRun ([45, 45, 91, 91] ++ (w ++ z)) sigs := by
  have := LexRun_step2 [45, 45, 91, 91] w z
    (.comment, [45, 45, 91, 91] ++ w, none, none) true sigs
    (fun st1 => ∃ l c, st1.mode = .inComment l c [45, 45, 91, 91]) (by simp)
    (by intro h; have := hok.1; rw [h] at this; simp at this) ?_ ?_ hz
  · simpa using this
  · intro st hm
    refine ⟨advance { st with mode := .inComment st.line st.col [45, 45, 91, 91] }
      (([45, 45, 91, 91] ++ (w ++ z)).take 4), ?_, by rw [advance_toks], ?_⟩
    · unfold processToken
      simp [hm, List.isPrefixOf]
    · exact ⟨st.line, st.col, by rw [advance_mode]⟩
  · rintro st1 ⟨l, c, hm⟩
    have hf := hok.2 z
    have h2 := hok.1
    have htake : (w ++ z).take (w.length - 2 + 2) = w := by
      rw [show w.length - 2 + 2 = w.length by omega, List.take_left]
    refine ⟨advance { st1 with toks := st1.toks.push { kind := .comment, data := [45, 45, 91, 91] ++ (w ++ z).take (w.length - 2 + 2), line := l, col := c }, mode := .normal }
        ((w ++ z).take (w.length - 2 + 2)), ?_, ?_,
      { kind := .comment, data := [45, 45, 91, 91] ++ (w ++ z).take (w.length - 2 + 2), line := l, col := c }, ?_, ?_, rfl⟩
    · unfold processToken
      simp only [hm, hf]
      simp; omega
    · rw [advance_mode]
    · rw [advance_toks]
    · simp only [core, htake]


end Pico.C01L
