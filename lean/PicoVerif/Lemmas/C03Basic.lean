import PicoVerif.Base.Py
/-! General-purpose lemmas for C03: `chunks`, hex text, `rstrip`, `splitLinesAux`, `natToDec`. -/
namespace Pico

/-! ### chunks -/

theorem chunks_nil (n : Nat) : chunks n ([] : List α) = [] := by
  rw [chunks]; simp

theorem chunks_step (n : Nat) (l : List α) (hn : n ≠ 0) (hl : l ≠ []) :
    chunks n l = l.take n :: chunks n (l.drop n) := by
  rw [chunks]; simp [hn, hl]

theorem chunks_flatten (n : Nat) (hn : n ≠ 0) (l : List α) : (chunks n l).flatten = l := by
  fun_induction chunks n l with
  | case1 l h =>
    rcases h with h | h
    · exact absurd h hn
    · simp [h]
  | case2 l h ih => simp [ih]

theorem chunks_exact (n : Nat) (hn : 0 < n) : ∀ (k : Nat) (l : List α), l.length = k * n →
    (chunks n l).length = k ∧ ∀ c ∈ chunks n l, c.length = n := by
  intro k
  induction k with
  | zero =>
    intro l h
    have : l = [] := List.length_eq_zero_iff.mp (by simpa using h)
    subst this
    simp [chunks_nil]
  | succ k ih =>
    intro l h
    have hl : l ≠ [] := by
      intro h0; subst h0
      have : 0 < (k + 1) * n := Nat.mul_pos (by omega) hn
      simp at h; omega
    have hlen : (k + 1) * n = k * n + n := by rw [Nat.add_mul]; simp
    rw [chunks_step n l (by omega) hl]
    have hd : (l.drop n).length = k * n := by simp [List.length_drop]; omega
    obtain ⟨h1, h2⟩ := ih (l.drop n) hd
    refine ⟨by simp [h1], ?_⟩
    intro c hc
    rcases List.mem_cons.mp hc with hc | hc
    · subst hc; simp [List.length_take]; omega
    · exact h2 c hc

/-! ### hex digits -/

/-- lower-case hex digit character -/
def isHexLower (x : UInt8) : Bool := (48 ≤ x && x ≤ 57) || (97 ≤ x && x ≤ 102)

theorem hexDigit_isHex : ∀ n, n < 16 → isHexLower (hexDigit n) = true := by decide

theorem toHex_allHex (bs : Bytes) : ∀ x ∈ toHex bs, isHexLower x = true := by
  induction bs with
  | nil => intro x hx; simp [toHex] at hx
  | cons b bs ih =>
    intro x hx
    simp only [toHex, List.mem_cons] at hx
    have hb := b.toNat_lt
    rcases hx with hx | hx | hx
    · subst hx; exact hexDigit_isHex _ (by omega)
    · subst hx; exact hexDigit_isHex _ (by omega)
    · exact ih x hx

theorem hex_not_space : ∀ x, (!isHexLower x || !isPySpace x) = true := forall_u8 _ (by decide +kernel)

theorem isHex_not_space {x : UInt8} (h : isHexLower x = true) : isPySpace x = false := by
  have := hex_not_space x
  simp [h] at this
  exact this

/-! ### rstrip -/

theorem rstrip_line (a b : Bytes) (hb : b ≠ []) (h : ∀ x ∈ b, isPySpace x = false) :
    rstrip (a ++ b ++ [10]) = a ++ b := by
  unfold rstrip
  have h10 : isPySpace 10 = true := by decide
  obtain ⟨b', y, rfl⟩ : ∃ b' y, b = b' ++ [y] := by
    rcases List.eq_nil_or_concat b with h0 | ⟨b', y, h1⟩
    · exact absurd h0 hb
    · exact ⟨b', y, by simpa using h1⟩
  have hy : isPySpace y = false := h y (by simp)
  simp [List.reverse_append, h10, hy]

theorem rstrip_lf : rstrip [10] = [] := by decide

theorem rstrip_hexline (a : Bytes) (h : ∀ x ∈ a, isHexLower x = true) : rstrip (a ++ [10]) = a := by
  cases a with
  | nil => exact rstrip_lf
  | cons x xs =>
    have := rstrip_line [] (x :: xs) (by simp) (fun y hy => isHex_not_space (h y hy))
    simpa using this

/-! ### splitLinesAux -/

theorem splitLinesAux_flatten (nl : α → Bool) (s : List α) :
    ∀ cur, (splitLinesAux nl s cur).flatten = cur.reverse ++ s := by
  induction s with
  | nil =>
    intro cur
    cases cur <;> simp [splitLinesAux]
  | cons x xs ih =>
    intro cur
    simp only [splitLinesAux]
    split
    · simp [ih]
    · rw [ih]; simp

/-- one complete line at the front -/
theorem splitLinesAux_line (nl : α → Bool) (a : List α) (x : α) (rest : List α)
    (ha : ∀ y ∈ a, nl y = false) (hx : nl x = true) :
    ∀ cur, splitLinesAux nl (a ++ x :: rest) cur = (cur.reverse ++ a ++ [x]) :: splitLinesAux nl rest [] := by
  induction a with
  | nil => intro cur; simp [splitLinesAux, hx]
  | cons y ys ih =>
    intro cur
    have hy : nl y = false := ha y (by simp)
    simp only [List.cons_append, splitLinesAux, hy]
    have := ih (fun z hz => ha z (by simp [hz])) (y :: cur)
    simpa using this

/-- a list that is one line: `a ++ [nl]` with no `nl` in `a` -/
def IsLine (nl : α → Bool) (l : List α) : Prop :=
  ∃ a x, l = a ++ [x] ∧ (∀ y ∈ a, nl y = false) ∧ nl x = true

theorem splitLinesAux_lines (nl : α → Bool) (ls : List (List α)) (h : ∀ l ∈ ls, IsLine nl l) (rest : List α) :
    splitLinesAux nl (ls.flatten ++ rest) [] = ls ++ splitLinesAux nl rest [] := by
  induction ls with
  | nil => simp
  | cons l ls ih =>
    obtain ⟨a, x, rfl, ha, hx⟩ := h l (by simp)
    have := splitLinesAux_line nl a x (ls.flatten ++ rest) ha hx []
    simp only [List.flatten_cons, List.append_assoc, List.cons_append, List.nil_append]
    rw [this, ih (fun l hl => h l (by simp [hl]))]
    simp

theorem splitLinesAux_lines' (nl : α → Bool) (ls : List (List α)) (h : ∀ l ∈ ls, IsLine nl l) :
    splitLinesAux nl ls.flatten [] = ls := by
  have := splitLinesAux_lines nl ls h []
  simpa [splitLinesAux] using this

/-- every list that ends with a newline is a concatenation of lines -/
theorem exists_lines (nl : α → Bool) (x : α) (hx : nl x = true) (s : List α) :
    ∃ ls : List (List α), (∀ l ∈ ls, IsLine nl l) ∧ s ++ [x] = ls.flatten := by
  induction s with
  | nil => exact ⟨[[x]], by intro l hl; simp at hl; subst hl; exact ⟨[], x, rfl, by simp, hx⟩, by simp⟩
  | cons y ys ih =>
    obtain ⟨ls, hls, hflat⟩ := ih
    by_cases hy : nl y = true
    · refine ⟨[y] :: ls, ?_, by simp [hflat]⟩
      intro l hl
      rcases List.mem_cons.mp hl with rfl | hl
      · exact ⟨[], y, rfl, by simp, hy⟩
      · exact hls l hl
    · cases ls with
      | nil => simp at hflat
      | cons l ls =>
        refine ⟨(y :: l) :: ls, ?_, by simp at hflat ⊢; simp [hflat]⟩
        intro l' hl'
        rcases List.mem_cons.mp hl' with rfl | hl'
        · obtain ⟨a, z, rfl, ha, hz⟩ := hls l (by simp)
          refine ⟨y :: a, z, rfl, ?_, hz⟩
          intro w hw
          rcases List.mem_cons.mp hw with rfl | hw
          · simpa using hy
          · exact ha w hw
        · exact hls l' (by simp [hl'])

end Pico
