import PicoVerif.Model.Peg
/-! Fuel of the grammar interpreter: every error an inner run returns is returned by the outer run, so a result that is not the
fuel error was computed without any inner run hitting the fuel limit — and is then the result for every larger fuel as well. -/
namespace Pico.Peg
open Pico.Lex

/-- one more unit of fuel does not change a result that is not the fuel error (`run` and its `chainLoop`) -/
theorem run_fuel_succ (gram : Nat → G) (toks : Array Tok) : ∀ fuel,
    (∀ g st, run gram toks fuel g st ≠ .error .fuel → run gram toks (fuel + 1) g st = run gram toks fuel g st) ∧
    (∀ sfx acc st, run.chainLoop gram toks fuel sfx acc st ≠ .error .fuel →
        run.chainLoop gram toks (fuel + 1) sfx acc st = run.chainLoop gram toks fuel sfx acc st) := by
  intro fuel
  induction fuel with
  | zero =>
    constructor
    · intro g st h; exact absurd (by rw [run]) h
    · intro sfx acc st h; exact absurd (by rw [run.chainLoop]) h
  | succ n ih =>
    obtain ⟨ihR, ihC⟩ := ih
    constructor
    · intro g st h
      cases g with
      | eps => rw [run, run]
      | tok p => rw [run, run]
      | prevTokIs p => rw [run, run]
      | nt k => rw [run] at h; rw [run, run]; exact ihR _ _ h
      | seq a b =>
        rw [run] at h
        rw [run, run]
        have ha : run gram toks n a st ≠ .error .fuel := by intro hx; rw [hx] at h; exact h rfl
        rw [ihR a st ha]
        cases hx : run gram toks n a st with
        | error e => rfl
        | ok o =>
          cases o with
          | none => rfl
          | some p =>
            obtain ⟨ta, st1⟩ := p
            rw [hx] at h
            simp only at h ⊢
            have hb : run gram toks n b st1 ≠ .error .fuel := by intro hx; rw [hx] at h; exact h rfl
            rw [ihR b st1 hb]
      | alt a b =>
        rw [run] at h
        rw [run, run]
        have ha : run gram toks n a st ≠ .error .fuel := by intro hx; rw [hx] at h; exact h rfl
        rw [ihR a st ha]
        cases hx : run gram toks n a st with
        | error e => rfl
        | ok o =>
          cases o with
          | some p => rfl
          | none =>
            rw [hx] at h
            simp only at h ⊢
            exact ihR b st h
      | star g =>
        rw [run] at h
        rw [run, run]
        have ha : run gram toks n g st ≠ .error .fuel := by intro hx; rw [hx] at h; exact h rfl
        rw [ihR g st ha]
        cases hx : run gram toks n g st with
        | error e => rfl
        | ok o =>
          cases o with
          | none => rfl
          | some p =>
            obtain ⟨t1, st1⟩ := p
            rw [hx] at h
            simp only at h ⊢
            by_cases hc : st1.pos ≤ st.pos
            · rw [if_pos hc]; rw [if_pos hc]
            · rw [if_neg hc] at h
              rw [if_neg hc, if_neg hc]
              have hb : run gram toks n (.star g) st1 ≠ .error .fuel := by intro hx; rw [hx] at h; exact h rfl
              rw [ihR _ st1 hb]
      | hard g =>
        rw [run] at h
        rw [run, run]
        have ha : run gram toks n g st ≠ .error .fuel := by intro hx; rw [hx] at h; exact h rfl
        rw [ihR g st ha]
      | node k g =>
        rw [run] at h
        rw [run, run]
        have ha : run gram toks n g st ≠ .error .fuel := by intro hx; rw [hx] at h; exact h rfl
        rw [ihR g st ha]
      | notAhead g =>
        rw [run] at h
        rw [run, run]
        have ha : run gram toks n g st ≠ .error .fuel := by intro hx; rw [hx] at h; exact h rfl
        rw [ihR g st ha]
      | filterTop ks g =>
        rw [run] at h
        rw [run, run]
        have ha : run gram toks n g st ≠ .error .fuel := by intro hx; rw [hx] at h; exact h rfl
        rw [ihR g st ha]
      | fence g =>
        rw [run] at h
        rw [run, run]
        generalize hst : ({ st with maxPos := some _ } : PSt) = st0 at h ⊢
        have ha : run gram toks n g st0 ≠ .error .fuel := by intro hx; rw [hx] at h; exact h rfl
        rw [ihR g st0 ha]
      | chain first suffix =>
        rw [run] at h
        rw [run, run]
        have ha : run gram toks n first st ≠ .error .fuel := by intro hx; rw [hx] at h; exact h rfl
        rw [ihR first st ha]
        cases hx : run gram toks n first st with
        | error e => rfl
        | ok o =>
          cases o with
          | none => rfl
          | some p =>
            obtain ⟨t1, st1⟩ := p
            rw [hx] at h
            simp only at h ⊢
            exact ihC _ _ _ h
    · intro sfx acc st h
      rw [run.chainLoop] at h
      rw [run.chainLoop, run.chainLoop]
      have ha : run gram toks n sfx st ≠ .error .fuel := by intro hx; rw [hx] at h; exact h rfl
      rw [ihR sfx st ha]
      cases hx : run gram toks n sfx st with
      | error e => rfl
      | ok o =>
        cases o with
        | none => rfl
        | some p =>
          obtain ⟨ts, st1⟩ := p
          rw [hx] at h
          simp only at h ⊢
          by_cases hc : st1.pos ≤ st.pos
          · rw [if_pos hc]; rw [if_pos hc]
          · rw [if_neg hc] at h
            rw [if_neg hc, if_neg hc]
            exact ihC _ _ _ h

/-- **fuel independence**: a result that is not the fuel error is the result for every larger fuel -/
theorem run_fuel_le (gram : Nat → G) (toks : Array Tok) (f f' : Nat) (h : f ≤ f') (g : G) (st : PSt)
    (hne : run gram toks f g st ≠ .error .fuel) : run gram toks f' g st = run gram toks f g st := by
  induction h with
  | refl => rfl
  | step hle ih =>
    rw [← ih]
    exact (run_fuel_succ gram toks _).1 g st (by rw [ih]; exact hne)

end Pico.Peg
