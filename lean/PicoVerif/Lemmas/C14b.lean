import PicoVerif.Model.ReqWalk
import PicoVerif.Lemmas.C14
/-! Lemmas for the second part of C14: the walker against its specification (`walk` / `reqNodes`), the shape of
`callOf`, membership in `stripRanges`, `mapM` in `Except`, the result of `locateRequire`. -/
namespace Pico.ReqWalk
open Pico.Lex Pico.Peg Pico.Gram Pico.Req Pico.Inc

/-! ### `throughFirstError` and `cut` -/

theorem throughFirstError_singleton (c : Call) : throughFirstError [c] = [c] := by
  simp only [throughFirstError]
  split <;> rfl

theorem cut_nil (b : List Call) : cut [] b = b := by
  simp [cut]

theorem cut_throughFirstError (a b : List Call) :
    cut (throughFirstError a) (throughFirstError b) = throughFirstError (a ++ b) := by
  induction a with
  | nil => simp [throughFirstError, cut_nil]
  | cons c a ih =>
    rw [List.cons_append, throughFirstError, throughFirstError]
    by_cases hc : isErr c = true
    · simp [hc, cut]
    · have hc' : isErr c = false := by simpa using hc
      simp only [hc', Bool.false_eq_true, if_false]
      rw [← ih]
      simp only [cut, List.any_cons, hc', Bool.false_or]
      split <;> simp

theorem throughFirstError_idem (a : List Call) : throughFirstError (throughFirstError a) = throughFirstError a := by
  induction a with
  | nil => rfl
  | cons c a ih =>
    rw [throughFirstError]
    split
    · rename_i hc
      simp [throughFirstError, hc]
    · rename_i hc
      rw [throughFirstError, if_neg hc, ih]

/-! ### the walker reports the specified calls -/

mutual
theorem walk_eq (toks : Array Tok) : ∀ t : Tree,
    walk toks t = throughFirstError ((reqNodes toks t).map (callOf toks))
  | .leaf _ => by simp [walk, reqNodes, throughFirstError]
  | .node k s e [] => by
    rw [walk, reqNodes]
    split
    · rfl
    · exact walkL_eq toks []
  | .node k s e (c :: args) => by
    rw [walk, reqNodes]
    split
    · split
      · simp [throughFirstError_singleton]
      · exact walkL_eq toks (c :: args)
    · exact walkL_eq toks (c :: args)
theorem walkL_eq (toks : Array Tok) : ∀ ts : List Tree,
    walkL toks ts = throughFirstError ((reqNodesL toks ts).map (callOf toks))
  | [] => by simp [walkL, reqNodesL, throughFirstError]
  | t :: ts => by
    rw [walkL, reqNodesL, List.map_append, ← cut_throughFirstError, walk_eq toks t, walkL_eq toks ts]
end

/-! ### the shape of an accepted call -/

theorem callOf_ok_iff (toks : Array Tok) (args : List Tree) (p : Bytes) (b : Bool) :
    callOf toks args = .ok (p, b) ↔
      ∃ s e acs s2 e2 es, args = [.node kFunctionArgs s e acs] ∧ acs.filter isNode = [.node kExpList s2 e2 es] ∧
        ((∃ a, es.filter isNode = [a] ∧ stringOf toks a = some p ∧ b = false) ∨
         (∃ a o, es.filter isNode = [a, o] ∧ stringOf toks a = some p ∧ optionOf toks o = some b)) := by
  constructor
  · intro h
    unfold callOf at h
    split at h
    · rename_i k s e acs
      split at h
      · cases h
      · rename_i hk
        have hk' : k = kFunctionArgs := by simpa using hk
        subst hk'
        split at h
        · cases h
        · rename_i ke s2 e2 es hacs
          split at h
          · cases h
          · rename_i hke
            have hke' : ke = kExpList := by simpa using hke
            subst hke'
            refine ⟨s, e, acs, s2, e2, es, rfl, hacs, ?_⟩
            split at h
            · rename_i a hes
              split at h
              · rename_i p' hp
                cases h
                exact .inl ⟨a, hes, hp, rfl⟩
              · cases h
            · rename_i a o hes
              split at h
              · rename_i p' b' hp hb
                cases h
                exact .inr ⟨a, o, hes, hp, hb⟩
              · cases h
            · cases h
        · cases h
    · cases h
  · rintro ⟨s, e, acs, s2, e2, es, rfl, hacs, h⟩
    unfold callOf
    simp only [bne_self_eq_false, Bool.false_eq_true, if_false, hacs]
    rcases h with ⟨a, hes, hp, rfl⟩ | ⟨a, o, hes, hp, hb⟩
    · simp only [hes, hp]
    · simp only [hes, hp, hb]

theorem callOf_ok_or_build (toks : Array Tok) (args : List Tree) :
    (∃ p b, callOf toks args = .ok (p, b)) ∨ callOf toks args = .error .build := by
  unfold callOf
  repeat' split
  all_goals first
    | exact .inr rfl
    | exact .inl ⟨_, _, rfl⟩

/-! ### the stripped ranges -/

theorem mem_stripRanges_chunk (toks : Array Tok) (s0 e0 : Nat) (cs : List Tree) (s e : Nat) :
    (s, e) ∈ stripRanges toks [.node kChunk s0 e0 cs] ↔
      ∃ kwLeaf fn rest np m, Tree.node kStatFunction s e (.leaf kwLeaf :: fn :: rest) ∈ cs ∧
        funcNameParts toks fn = some (np, m) ∧ stripsStat np m = true := by
  unfold stripRanges
  simp only [bne_self_eq_false, Bool.false_eq_true, if_false, List.mem_filterMap]
  constructor
  · rintro ⟨t, ht, h⟩
    split at h
    · rename_i ks s' e' kwLeaf fn rest
      split at h
      · rename_i hks
        have hks' : ks = kStatFunction := by simpa using hks
        subst hks'
        split at h
        · rename_i np m hf
          split at h
          · rename_i hst
            cases h
            exact ⟨kwLeaf, fn, rest, np, m, ht, hf, hst⟩
          · cases h
        · cases h
      · cases h
    · cases h
  · rintro ⟨kwLeaf, fn, rest, np, m, ht, hf, hst⟩
    refine ⟨_, ht, ?_⟩
    simp only [beq_self_eq_true, if_true, hf, hst]

/-! ### `packageCode` -/

theorem packageCode_true (src : List Bytes) : packageCode true src = Lex.lex src := by
  unfold packageCode
  split
  · rename_i e h; rw [h]
  · rename_i toks h; rw [h]; rfl

theorem packageCode_nothing (src : List Bytes) (toks : List Tok) (ts : List Tree)
    (hl : Lex.lex src = .ok toks) (hp : parse toks = .ok ts) (hn : stripRanges toks.toArray ts = []) :
    packageCode false src = .ok toks := by
  unfold packageCode
  simp only [hl, hp, hn, Bool.false_eq_true, if_false]

/-! ### `mapM` in `Except` -/

theorem mapM_except_ok {α β ε γ : Type} (f : α → Except ε β) (g : α → γ) (h : β → γ)
    (hgh : ∀ a b, f a = .ok b → h b = g a) : ∀ (l : List α) (bs : List β),
    l.mapM f = .ok bs → bs.map h = l.map g ∧ ∀ a ∈ l, ∃ b, f a = .ok b ∧ b ∈ bs := by
  intro l
  induction l with
  | nil =>
    intro bs hm
    rw [List.mapM_nil] at hm
    cases hm
    exact ⟨rfl, fun a ha => by cases ha⟩
  | cons a l ih =>
    intro bs hm
    rw [List.mapM_cons] at hm
    cases hfa : f a with
    | error e => rw [hfa] at hm; cases hm
    | ok b =>
      cases hl : l.mapM f with
      | error e => rw [hfa, hl] at hm; cases hm
      | ok bs' =>
        rw [hfa, hl] at hm
        cases hm
        obtain ⟨ih1, ih2⟩ := ih _ hl
        refine ⟨by rw [List.map_cons, List.map_cons, hgh a b hfa, ih1], ?_⟩
        intro x hx
        rcases List.mem_cons.1 hx with rfl | hx
        · exact ⟨b, hfa, List.mem_cons_self⟩
        · obtain ⟨b', hb1, hb2⟩ := ih2 x hx
          exact ⟨b', hb1, List.mem_cons_of_mem _ hb2⟩

/-! ### the result of the lookup is a candidate -/

theorem locateRequire_go_mem (isFile : Path.P → Bool) (cands : List Path.P) : ∀ acc c,
    (locateRequire.go isFile cands acc).1 = some c → c ∈ cands := by
  induction cands with
  | nil => intro acc c h; simp [locateRequire.go] at h
  | cons c0 rest ih =>
    intro acc c h
    rw [locateRequire.go] at h
    split at h
    · simp only [Option.some.injEq] at h
      subst h
      exact List.mem_cons_self
    · exact List.mem_cons_of_mem _ (ih _ _ h)

theorem locateRequire_mem (isFile : Path.P → Bool) (p dir lp c : Path.P)
    (h : (locateRequire isFile p dir lp).1 = some c) : c ∈ requireCandidates p dir lp :=
  locateRequire_go_mem isFile _ _ _ h

theorem worldOf_locate (fs : Files) (lp : Path.P) (p : Bytes) (cur f : Nat)
    (h : (worldOf fs lp).locate p cur = some f) :
    ∃ (curPath : Path.P) (src : List Bytes) (c : Path.P), fs[cur]? = some (curPath, src) ∧
      c ∈ requireCandidates (bytesToPath p) (Path.dirname curPath) lp ∧ fileIdx fs c = some f := by
  simp only [worldOf] at h
  split at h
  · cases h
  · rename_i curPath src hcur
    cases hloc : (locateRequire (fun c => (fileIdx fs c).isSome) (bytesToPath p) (Path.dirname curPath) lp).1 with
    | none => rw [hloc] at h; cases h
    | some c =>
      rw [hloc] at h
      exact ⟨curPath, src, c, hcur, locateRequire_mem _ _ _ _ _ hloc, h⟩

/-! ### a successful build, step by step -/

theorem buildLua_ok (fs : Files) (main : Nat) (lp : Path.P) (code : Bytes) (h : buildLua fs main lp = .ok code) :
    ∃ mpath src mainToks calls pkgs bodies toks,
      fs[main]? = some (mpath, src) ∧ Lex.lex src = .ok mainToks ∧ requireCalls mainToks = .ok calls ∧
      evalCalls (worldOf fs lp) (4 * fs.length + 4 * calls.length + 16) calls main [] = .ok pkgs ∧
      bodies.map (·.1) = pkgs.map (·.name) ∧
      (∀ q ∈ pkgs, ∃ path psrc ptoks, fs[q.file]? = some (path, psrc) ∧ packageCode q.keepLoop psrc = .ok ptoks ∧
          (q.name, Wr.echo ptoks) ∈ bodies) ∧
      Lex.lex [assembleCode bodies (Wr.echo mainToks)] = .ok toks ∧ code = Wr.echo toks := by
  unfold buildLua at h
  split at h
  · cases h
  · rename_i mpath src hmain
    split at h
    · cases h
    · rename_i mainToks hlex
      split at h
      · cases h
      · rename_i calls hcalls
        simp only at h
        split at h
        · cases h
        · rename_i pkgs hev
          split at h
          · cases h
          · rename_i bodies hbodies
            split at h
            · cases h
            · rename_i toks hrelex
              split at h
              · cases h
              · cases h
                obtain ⟨hb1, hb2⟩ := mapM_except_ok _ (fun q : Pkg => q.name) (fun b : Bytes × Bytes => b.1) (by
                  intro q b hq
                  split at hq
                  · cases hq
                  · cases hpc : packageCode q.keepLoop _ with
                    | error e => rw [hpc] at hq; cases hq
                    | ok ptoks => rw [hpc] at hq; cases hq; rfl) pkgs bodies hbodies
                refine ⟨mpath, src, mainToks, calls, pkgs, bodies, toks, hmain, hlex, hcalls, hev, hb1, ?_, hrelex, rfl⟩
                intro q hq
                obtain ⟨b, hb, hbm⟩ := hb2 q hq
                split at hb
                · cases hb
                · rename_i path psrc hfile
                  cases hpc : packageCode q.keepLoop psrc with
                  | error e => rw [hpc] at hb; cases hb
                  | ok ptoks =>
                    rw [hpc] at hb
                    cases hb
                    exact ⟨path, psrc, ptoks, hfile, hpc, hbm⟩

end Pico.ReqWalk
