import PicoVerif.Lemmas.C01Fwd
/-! Numerals for C01: a numeral the lexer accepted is read back identically whatever harmless text follows. -/
namespace Pico.C01L
open Pico.Lex Pico.Wr


def TermNum (z : Bytes) : Prop := ∀ c, z.head? = some c → isIdentChar c = false ∧ c ≠ 46

theorem TermNum.notDigit {z : Bytes} (hz : TermNum z) : ∀ c, z.head? = some c → isDigit c = false := by
  intro c hc
  have := (hz c hc).1
  cases hd : isDigit c with
  | false => rfl
  | true => rw [digit_identChar c hd] at this; cases this

theorem expLen_cons_not (e : UInt8) (rest : Bytes) (h : ¬(e = 101 ∨ e = 69)) : expLen (e :: rest) = 0 := by
  simp only [expLen]; rw [if_neg h]

theorem expLen_single (e : UInt8) : expLen [e] = 0 := by
  simp only [expLen]; split <;> simp [spanLen_nil]

theorem expLen_cons_minus (e : UInt8) (r : Bytes) (h : e = 101 ∨ e = 69) :
    expLen (e :: 45 :: r) = if spanLen isDigit r = 0 then 0 else 2 + spanLen isDigit r := by
  simp only [expLen]; rw [if_pos h]; simp

theorem expLen_cons_other (e m : UInt8) (r : Bytes) (h : e = 101 ∨ e = 69) (hm : m ≠ 45) :
    expLen (e :: m :: r) = if spanLen isDigit (m :: r) = 0 then 0 else 1 + spanLen isDigit (m :: r) := by
  simp only [expLen]; rw [if_pos h]; simp [hm]

theorem expLen_term (z : Bytes) (hz : TermNum z) : expLen z = 0 := by
  cases z with
  | nil => rfl
  | cons c z' =>
    have := (hz c rfl).1
    apply expLen_cons_not
    rintro (rfl | rfl) <;> exact absurd this (by decide)

theorem span_digit_term (z : Bytes) (hz : TermNum z) : spanLen isDigit z = 0 :=
  spanLen_head_false _ _ hz.notDigit

/-- an exponent that was read entirely is read identically before a harmless continuation -/
theorem expLen_stab (ex r z : Bytes) (hne : ex ≠ []) (h : expLen (ex ++ r) = ex.length) (hz : TermNum z) :
    expLen (ex ++ z) = ex.length := by
  obtain ⟨e, ex', rfl⟩ := List.exists_cons_of_ne_nil hne
  by_cases he : e = 101 ∨ e = 69
  · cases ex' with
    | nil =>
      exfalso
      cases r with
      | nil => simp [expLen_single] at h
      | cons m r' =>
        by_cases hm : m = 45
        · subst hm
          simp only [List.cons_append, List.nil_append, expLen_cons_minus e r' he, List.length_cons, List.length_nil] at h
          split at h <;> omega
        · simp only [List.cons_append, List.nil_append, expLen_cons_other e m r' he hm, List.length_cons, List.length_nil] at h
          split at h
          · omega
          · rename_i h0
            have : spanLen isDigit (m :: r') = 0 := by omega
            exact h0 this
    | cons m ex'' =>
      by_cases hm : m = 45
      · subst hm
        simp only [List.cons_append, expLen_cons_minus e _ he, List.length_cons] at h ⊢
        have hn : spanLen isDigit (ex'' ++ r) = ex''.length := by split at h <;> omega
        have hpos : ex''.length ≠ 0 := by
          intro h0; rw [h0] at hn; rw [hn] at h; simp at h
        have hall := spanLen_append_ge isDigit ex'' r (by omega)
        rw [spanLen_append_all _ _ _ hall, span_digit_term z hz]
        rw [if_neg (by omega)]; omega
      · simp only [List.cons_append, expLen_cons_other e m _ he hm, List.length_cons] at h ⊢
        have hn : spanLen isDigit (m :: (ex'' ++ r)) = ex''.length + 1 := by split at h <;> omega
        have hall := spanLen_append_ge isDigit (m :: ex'') r (by simpa using Nat.le_of_eq hn.symm)
        have := spanLen_append_all isDigit (m :: ex'') z hall
        simp only [List.cons_append, span_digit_term z hz, List.length_cons] at this
        rw [this, if_neg (by omega)]; omega
  · exfalso
    simp [expLen_cons_not e _ he] at h



theorem drop_append_lt {α} (a : List α) (n : Nat) (h : n < a.length) :
    ∃ c t, a.drop n = c :: t ∧ t.length = a.length - n - 1 ∧ ∀ b : List α, (a ++ b).drop n = c :: t ++ b := by
  have hne : a.drop n ≠ [] := by
    intro h0; have := congrArg List.length h0; simp at this; omega
  obtain ⟨c, t, hct⟩ := List.exists_cons_of_ne_nil hne
  refine ⟨c, t, hct, ?_, ?_⟩
  · have := congrArg List.length hct; simp at this; omega
  · intro b; rw [List.drop_append_of_le_length (Nat.le_of_lt h), hct]

/-- the optional fraction of a decimal numeral: `\.(?!\.)[0-9]*` -/
def fracLen (rest : Bytes) : Nat :=
  match rest with
  | d :: r => if d = 46 ∧ r.head? ≠ some 46 then 1 + spanLen isDigit r else 0
  | [] => 0

theorem mDecimal_eq (s : Bytes) : mDecimal s =
    if spanLen isDigit s = 0 then none else
      some (spanLen isDigit s + fracLen (s.drop (spanLen isDigit s)) +
        expLen ((s.drop (spanLen isDigit s)).drop (fracLen (s.drop (spanLen isDigit s))))) := rfl

theorem fracLen_term (z : Bytes) (hz : TermNum z) : fracLen z = 0 := by
  cases z with
  | nil => rfl
  | cons c z' => simp [fracLen, (hz c rfl).2]

theorem frac_exp_stab (d' r z : Bytes) (hz : TermNum z)
    (h : fracLen (d' ++ r) + expLen ((d' ++ r).drop (fracLen (d' ++ r))) = d'.length) :
    fracLen (d' ++ z) + expLen ((d' ++ z).drop (fracLen (d' ++ z))) = d'.length := by
  cases d' with
  | nil => simp [fracLen_term z hz, expLen_term z hz]
  | cons c d2 =>
    simp only [List.cons_append, fracLen, List.length_cons] at h ⊢
    by_cases hfr : c = 46 ∧ (d2 ++ r).head? ≠ some 46
    · rw [if_pos hfr] at h
      rw [show 1 + spanLen isDigit (d2 ++ r) = spanLen isDigit (d2 ++ r) + 1 by omega, List.drop_succ_cons] at h
      rcases Nat.lt_or_ge (spanLen isDigit (d2 ++ r)) d2.length with hlt2 | hge2
      · have hm' := spanLen_append_lt isDigit d2 r z hlt2
        obtain ⟨e, d3, hd3, hlen3, hdrop⟩ := drop_append_lt d2 _ hlt2
        have hhead : (d2 ++ z).head? = (d2 ++ r).head? := by
          cases d2 with
          | nil => simp at hlt2
          | cons _ _ => rfl
        rw [if_pos ⟨hfr.1, by rw [hhead]; exact hfr.2⟩, hm']
        rw [show 1 + spanLen isDigit (d2 ++ r) = spanLen isDigit (d2 ++ r) + 1 by omega, List.drop_succ_cons]
        rw [hdrop r] at h; rw [hdrop z]
        have hel : expLen (e :: d3 ++ r) = (e :: d3).length := by simp only [List.length_cons]; omega
        rw [expLen_stab (e :: d3) r z (by simp) hel hz]
        simp only [List.length_cons]; omega
      · have hall := spanLen_append_ge isDigit d2 r hge2
        have hsr := spanLen_append_all isDigit d2 r hall
        have hhead : (d2 ++ z).head? ≠ some 46 := by
          cases d2 with
          | nil =>
            intro h46
            exact (hz 46 (by simpa using h46)).2 rfl
          | cons x _ =>
            have : isDigit x = true := hall x (by simp)
            intro h46; simp at h46; rw [h46] at this; exact absurd this (by decide)
        rw [if_pos ⟨hfr.1, hhead⟩, spanLen_append_all isDigit d2 z hall, span_digit_term z hz]
        rw [show 1 + (d2.length + 0) = d2.length + 1 by omega, List.drop_succ_cons, List.drop_left, expLen_term z hz]
    · rw [if_neg hfr] at h
      simp only [List.drop_zero, Nat.zero_add] at h
      have hel : expLen (c :: d2 ++ r) = (c :: d2).length := by simpa using h
      have hce : c = 101 ∨ c = 69 := by
        cases Decidable.em (c = 101 ∨ c = 69) with
        | inl h => exact h
        | inr hne => rw [List.cons_append, expLen_cons_not c _ hne] at hel; simp at hel
      have hc46 : ¬(c = 46 ∧ (d2 ++ z).head? ≠ some 46) := by
        rintro ⟨rfl, -⟩; rcases hce with h | h <;> cases h
      rw [if_neg hc46]
      simp only [List.drop_zero, Nat.zero_add]
      have := expLen_stab (c :: d2) r z (by simp) hel hz
      simpa using this

theorem mDecimal_stab (d r z : Bytes) (h : mDecimal (d ++ r) = some d.length) (hz : TermNum z) :
    mDecimal (d ++ z) = some d.length := by
  rw [mDecimal_eq] at h ⊢
  by_cases hn0 : spanLen isDigit (d ++ r) = 0
  · simp [hn0] at h
  rw [if_neg hn0] at h
  simp only [Option.some.injEq] at h
  rcases Nat.lt_or_ge (spanLen isDigit (d ++ r)) d.length with hlt | hge
  · have hn' := spanLen_append_lt isDigit d r z hlt
    obtain ⟨c, d2, hd, hlen, hdrop⟩ := drop_append_lt d _ hlt
    rw [hn', if_neg hn0, hdrop z]
    rw [hdrop r] at h
    have := frac_exp_stab (c :: d2) r z hz (by simp only [List.length_cons]; omega)
    simp only [List.length_cons] at this
    congr 1; omega
  · have hall := spanLen_append_ge isDigit d r hge
    have hsr := spanLen_append_all isDigit d r hall
    rw [spanLen_append_all isDigit d z hall, span_digit_term z hz, Nat.add_zero]
    have hdne : d.length ≠ 0 := by
      intro h0
      have : d = [] := List.length_eq_zero_iff.mp h0
      subst this
      simp at hsr; omega
    rw [if_neg hdne, List.drop_left, fracLen_term z hz]
    simp [expLen_term z hz]

theorem mDecimal_mono (d r z : Bytes) (hd : d ≠ []) (h : mDecimal (d ++ r) = none) : mDecimal (d ++ z) = none := by
  obtain ⟨c, t, rfl⟩ := List.exists_cons_of_ne_nil hd
  rw [mDecimal_eq] at h ⊢
  simp only [List.cons_append, spanLen_cons] at h ⊢
  by_cases hc : isDigit c = true
  · simp [hc] at h
  · simp [hc]



theorem mDotDecimal_cons (c : UInt8) (rest : Bytes) : mDotDecimal (c :: rest) =
    if c = 46 then (if spanLen isDigit rest = 0 then none
      else some (1 + spanLen isDigit rest + expLen (rest.drop (spanLen isDigit rest)))) else none := rfl

theorem mDotDecimal_stab (d r z : Bytes) (h : mDotDecimal (d ++ r) = some d.length) (hz : TermNum z) :
    mDotDecimal (d ++ z) = some d.length := by
  cases d with
  | nil =>
    exfalso
    cases r with
    | nil => simp [mDotDecimal] at h
    | cons c r' =>
      simp only [List.nil_append, mDotDecimal_cons, List.length_nil] at h
      split at h
      · split at h
        · cases h
        · simp at h
      · cases h
  | cons c d' =>
    simp only [List.cons_append, mDotDecimal_cons, List.length_cons] at h ⊢
    by_cases hc : c = 46
    · rw [if_pos hc] at h ⊢
      by_cases hn0 : spanLen isDigit (d' ++ r) = 0
      · simp [hn0] at h
      rw [if_neg hn0] at h
      simp only [Option.some.injEq] at h
      rcases Nat.lt_or_ge (spanLen isDigit (d' ++ r)) d'.length with hlt | hge
      · have hn' := spanLen_append_lt isDigit d' r z hlt
        obtain ⟨e, d3, hd3, hlen, hdrop⟩ := drop_append_lt d' _ hlt
        rw [hn', if_neg hn0, hdrop z]
        rw [hdrop r] at h
        have hel : expLen (e :: d3 ++ r) = (e :: d3).length := by simp only [List.length_cons]; omega
        rw [expLen_stab (e :: d3) r z (by simp) hel hz]
        simp only [List.length_cons]; congr 1; omega
      · have hall := spanLen_append_ge isDigit d' r hge
        have hsr := spanLen_append_all isDigit d' r hall
        rw [spanLen_append_all isDigit d' z hall, span_digit_term z hz, Nat.add_zero]
        have : d'.length ≠ 0 := by omega
        rw [if_neg this, List.drop_left, expLen_term z hz]
        congr 1; omega
    · simp [hc] at h

theorem mDotDecimal_mono (d r z : Bytes) (hd : d ≠ []) (hz : TermNum z) (h : mDotDecimal (d ++ r) = none) :
    mDotDecimal (d ++ z) = none := by
  obtain ⟨c, d', rfl⟩ := List.exists_cons_of_ne_nil hd
  simp only [List.cons_append, mDotDecimal_cons] at h ⊢
  by_cases hc : c = 46
  · rw [if_pos hc] at h ⊢
    have h0 : spanLen isDigit (d' ++ r) = 0 := by
      cases Decidable.em (spanLen isDigit (d' ++ r) = 0) with
      | inl h0 => exact h0
      | inr h0 => rw [if_neg h0] at h; cases h
    have : spanLen isDigit (d' ++ z) = 0 := by
      cases d' with
      | nil => simpa using span_digit_term z hz
      | cons e d'' =>
        simp only [List.cons_append, spanLen_cons] at h0 ⊢
        by_cases he : isDigit e = true
        · simp [he] at h0
        · simp [he]
    rw [if_pos this]
  · rw [if_neg hc]



/-- the optional fraction of a radix numeral: `\.<digits>+` -/
def radTail (dig : UInt8 → Bool) (rest2 : Bytes) : Nat :=
  match rest2 with
  | d :: rest3 => if d = 46 ∧ spanLen dig rest3 > 0 then 1 + spanLen dig rest3 else 0
  | [] => 0

theorem mRadix_cons2 (p1 p2 : UInt8) (dig : UInt8 → Bool) (z x : UInt8) (rest : Bytes) :
    mRadix p1 p2 dig (z :: x :: rest) =
      if z = 48 ∧ (x = p1 ∨ x = p2) then
        (if spanLen dig rest = 0 then none
         else some (2 + spanLen dig rest + radTail dig (rest.drop (spanLen dig rest))))
      else none := by
  simp only [mRadix]
  split
  · split
    · rfl
    · split
      · rename_i heq
        rw [heq]; simp only [radTail]
        split <;> simp <;> omega
      · rename_i heq
        rw [heq]; simp [radTail]
  · rfl

theorem mRadix_some (p1 p2 : UInt8) (dig : UInt8 → Bool) (s : Bytes) (k : Nat) (h : mRadix p1 p2 dig s = some k) :
    ∃ x rest, s = 48 :: x :: rest ∧ (x = p1 ∨ x = p2) ∧ spanLen dig rest ≠ 0 ∧
      k = 2 + spanLen dig rest + radTail dig (rest.drop (spanLen dig rest)) := by
  match s with
  | [] => simp [mRadix] at h
  | [_] => simp [mRadix] at h
  | z :: x :: rest =>
    rw [mRadix_cons2] at h
    split at h
    · rename_i hc
      split at h
      · cases h
      · rename_i hn
        simp only [Option.some.injEq] at h
        exact ⟨x, rest, by rw [hc.1], hc.2, hn, h.symm⟩
    · cases h

theorem radTail_term (dig : UInt8 → Bool) (z : Bytes) (hz : TermNum z) : radTail dig z = 0 := by
  cases z with
  | nil => rfl
  | cons c z' => simp [radTail, (hz c rfl).2]

theorem span_dig_term (dig : UInt8 → Bool) (hdig : ∀ b, dig b = true → isIdentChar b = true) (z : Bytes)
    (hz : TermNum z) : spanLen dig z = 0 := by
  apply spanLen_head_false
  intro c hc
  cases hd : dig c with
  | false => rfl
  | true => have := (hz c hc).1; rw [hdig c hd] at this; cases this

theorem mRadix_stab (p1 p2 : UInt8) (dig : UInt8 → Bool) (hdig : ∀ b, dig b = true → isIdentChar b = true)
    (d r z : Bytes) (h : mRadix p1 p2 dig (d ++ r) = some d.length) (hz : TermNum z) :
    mRadix p1 p2 dig (d ++ z) = some d.length := by
  obtain ⟨x, rest, hs, hx, hn, hk⟩ := mRadix_some p1 p2 dig _ _ h
  match d, hs, hk with
  | [], _, hk => simp at hk; omega
  | [_], _, hk => simp at hk; omega
  | a :: b :: d', hs, hk =>
    simp only [List.cons_append, List.cons.injEq] at hs
    obtain ⟨rfl, rfl, hrest⟩ := hs
    subst hrest
    simp only [List.length_cons] at hk
    simp only [List.cons_append, mRadix_cons2, true_and, hx, if_true, List.length_cons]
    rcases Nat.lt_or_ge (spanLen dig (d' ++ r)) d'.length with hlt | hge
    · have hn' := spanLen_append_lt dig d' r z hlt
      obtain ⟨c, d3, hd3, hlen, hdrop⟩ := drop_append_lt d' _ hlt
      rw [hn', if_neg hn, hdrop z]
      rw [hdrop r] at hk
      simp only [radTail, List.cons_append] at hk ⊢
      by_cases hc : c = 46 ∧ spanLen dig (d3 ++ r) > 0
      · rw [if_pos hc] at hk
        have hall := spanLen_append_ge dig d3 r (by omega)
        have hz0 := span_dig_term dig hdig z hz
        have hsp : spanLen dig (d3 ++ z) = d3.length := by rw [spanLen_append_all _ _ _ hall, hz0]; rfl
        have hsr := spanLen_append_all dig d3 r hall
        rw [hsp, if_pos ⟨hc.1, by omega⟩]
        congr 1; omega
      · rw [if_neg hc] at hk; omega
    · have hall := spanLen_append_ge dig d' r hge
      have hz0 := span_dig_term dig hdig z hz
      have hsr := spanLen_append_all dig d' r hall
      rw [spanLen_append_all _ _ _ hall, hz0, Nat.add_zero]
      have : d'.length ≠ 0 := by omega
      rw [if_neg this, List.drop_left, radTail_term dig z hz]
      congr 1; omega

theorem mRadix_mono (p1 p2 : UInt8) (dig : UInt8 → Bool) (hdig : ∀ b, dig b = true → isIdentChar b = true)
    (hp1 : isIdentChar p1 = true) (hp2 : isIdentChar p2 = true)
    (d r z : Bytes) (hd : d ≠ []) (hz : TermNum z) (h : mRadix p1 p2 dig (d ++ r) = none) :
    mRadix p1 p2 dig (d ++ z) = none := by
  cases hnew : mRadix p1 p2 dig (d ++ z) with
  | none => rfl
  | some k =>
    exfalso
    obtain ⟨x, rest, hs, hx, hn, -⟩ := mRadix_some p1 p2 dig _ _ hnew
    have hxi : isIdentChar x = true := by rcases hx with rfl | rfl <;> assumption
    match d, hd, hs with
    | [a], _, hs =>
      simp only [List.cons_append, List.nil_append, List.cons.injEq] at hs
      have := (hz x (by rw [hs.2]; rfl)).1
      rw [hxi] at this; cases this
    | [a, b], _, hs =>
      simp only [List.cons_append, List.nil_append, List.cons.injEq] at hs
      rw [← hs.2.2] at hn
      exact hn (span_dig_term dig hdig z hz)
    | a :: b :: e :: d'', _, hs =>
      simp only [List.cons_append, List.cons.injEq] at hs
      obtain ⟨rfl, rfl, hrest⟩ := hs
      subst hrest
      simp only [List.cons_append, mRadix_cons2, true_and, hx, if_true, spanLen_cons] at h hn
      by_cases he : dig e = true
      · simp [he] at h
      · simp [he] at hn



theorem mRadixFrac_cons3 (p1 p2 : UInt8) (dig : UInt8 → Bool) (z x d : UInt8) (rest : Bytes) :
    mRadixFrac p1 p2 dig (z :: x :: d :: rest) =
      if z = 48 ∧ (x = p1 ∨ x = p2) ∧ d = 46 then
        (if spanLen dig rest = 0 then none else some (3 + spanLen dig rest))
      else none := rfl

theorem mRadixFrac_some (p1 p2 : UInt8) (dig : UInt8 → Bool) (s : Bytes) (k : Nat)
    (h : mRadixFrac p1 p2 dig s = some k) :
    ∃ x rest, s = 48 :: x :: 46 :: rest ∧ (x = p1 ∨ x = p2) ∧ spanLen dig rest ≠ 0 ∧ k = 3 + spanLen dig rest := by
  match s with
  | [] => simp [mRadixFrac] at h
  | [_] => simp [mRadixFrac] at h
  | [_, _] => simp [mRadixFrac] at h
  | z :: x :: d :: rest =>
    rw [mRadixFrac_cons3] at h
    split at h
    · rename_i hc
      split at h
      · cases h
      · rename_i hn
        simp only [Option.some.injEq] at h
        exact ⟨x, rest, by rw [hc.1, hc.2.2], hc.2.1, hn, h.symm⟩
    · cases h

theorem mRadixFrac_stab (p1 p2 : UInt8) (dig : UInt8 → Bool) (hdig : ∀ b, dig b = true → isIdentChar b = true)
    (d r z : Bytes) (h : mRadixFrac p1 p2 dig (d ++ r) = some d.length) (hz : TermNum z) :
    mRadixFrac p1 p2 dig (d ++ z) = some d.length := by
  obtain ⟨x, rest, hs, hx, hn, hk⟩ := mRadixFrac_some p1 p2 dig _ _ h
  match d, hs, hk with
  | [], _, hk => simp at hk; omega
  | [_], _, hk => simp at hk; omega
  | [_, _], _, hk => simp at hk; omega
  | a :: b :: c :: d', hs, hk =>
    simp only [List.cons_append, List.cons.injEq] at hs
    obtain ⟨rfl, rfl, rfl, hrest⟩ := hs
    subst hrest
    simp only [List.length_cons] at hk
    have hall := spanLen_append_ge dig d' r (by omega)
    simp only [List.cons_append, mRadixFrac_cons3, hx, and_true, if_true, List.length_cons]
    rw [spanLen_append_all _ _ _ hall, span_dig_term dig hdig z hz, Nat.add_zero]
    have hsr := spanLen_append_all dig d' r hall
    have : d'.length ≠ 0 := by omega
    rw [if_neg this]; congr 1; omega

theorem mRadixFrac_mono (p1 p2 : UInt8) (dig : UInt8 → Bool) (hdig : ∀ b, dig b = true → isIdentChar b = true)
    (hp1 : isIdentChar p1 = true) (hp2 : isIdentChar p2 = true)
    (d r z : Bytes) (hd : d ≠ []) (hz : TermNum z) (h : mRadixFrac p1 p2 dig (d ++ r) = none) :
    mRadixFrac p1 p2 dig (d ++ z) = none := by
  cases hnew : mRadixFrac p1 p2 dig (d ++ z) with
  | none => rfl
  | some k =>
    exfalso
    obtain ⟨x, rest, hs, hx, hn, -⟩ := mRadixFrac_some p1 p2 dig _ _ hnew
    have hxi : isIdentChar x = true := by rcases hx with rfl | rfl <;> assumption
    match d, hd, hs with
    | [a], _, hs =>
      simp only [List.cons_append, List.nil_append, List.cons.injEq] at hs
      have := (hz x (by rw [hs.2]; rfl)).1
      rw [hxi] at this; cases this
    | [a, b], _, hs =>
      simp only [List.cons_append, List.nil_append, List.cons.injEq] at hs
      exact (hz 46 (by rw [hs.2.2]; rfl)).2 rfl
    | [a, b, c], _, hs =>
      simp only [List.cons_append, List.nil_append, List.cons.injEq] at hs
      rw [← hs.2.2.2] at hn
      exact hn (span_dig_term dig hdig z hz)
    | a :: b :: c :: e :: d'', _, hs =>
      simp only [List.cons_append, List.cons.injEq] at hs
      obtain ⟨rfl, rfl, rfl, hrest⟩ := hs
      subst hrest
      simp only [List.cons_append, mRadixFrac_cons3, hx, and_true, if_true, spanLen_cons] at h hn
      by_cases he : dig e = true
      · simp [he] at h
      · simp [he] at hn

/-! ### the six numeral matchers together -/

/-- a numeral matcher whose verdict on `d ++ _` survives replacing the continuation by a harmless one -/
structure CtxGood (m : Bytes → Option Nat) : Prop where
  stab : ∀ d r z, TermNum z → m (d ++ r) = some d.length → m (d ++ z) = some d.length
  mono : ∀ d r z, d ≠ [] → TermNum z → m (d ++ r) = none → m (d ++ z) = none

theorem hex_ident : ∀ b, isHexDigit b = true → isIdentChar b = true := by
  intro b h
  have := Pico.forall_u8 (fun b => !isHexDigit b || isIdentChar b) (by decide +kernel) b
  simpa [h] using this

theorem bin_ident : ∀ b, isBinDigit b = true → isIdentChar b = true := by
  intro b h
  have := Pico.forall_u8 (fun b => !isBinDigit b || isIdentChar b) (by decide +kernel) b
  simpa [h] using this

def numMatchers : List (Bytes → Option Nat) :=
  [mRadix 120 88 isHexDigit, mRadixFrac 120 88 isHexDigit, mRadix 98 66 isBinDigit, mRadixFrac 98 66 isBinDigit,
   mDecimal, mDotDecimal]

theorem candsNum_eq (s : Bytes) : candsNum s = numMatchers.map fun m => (Kind.number, m s) := rfl

theorem numMatchers_good : ∀ m ∈ numMatchers, CtxGood m := by
  intro m hm
  simp only [numMatchers, List.mem_cons, List.not_mem_nil, or_false] at hm
  rcases hm with rfl | rfl | rfl | rfl | rfl | rfl
  · exact ⟨fun d r z hz h => mRadix_stab _ _ _ hex_ident d r z h hz,
      fun d r z hd hz h => mRadix_mono _ _ _ hex_ident (by decide) (by decide) d r z hd hz h⟩
  · exact ⟨fun d r z hz h => mRadixFrac_stab _ _ _ hex_ident d r z h hz,
      fun d r z hd hz h => mRadixFrac_mono _ _ _ hex_ident (by decide) (by decide) d r z hd hz h⟩
  · exact ⟨fun d r z hz h => mRadix_stab _ _ _ bin_ident d r z h hz,
      fun d r z hd hz h => mRadix_mono _ _ _ bin_ident (by decide) (by decide) d r z hd hz h⟩
  · exact ⟨fun d r z hz h => mRadixFrac_stab _ _ _ bin_ident d r z h hz,
      fun d r z hd hz h => mRadixFrac_mono _ _ _ bin_ident (by decide) (by decide) d r z hd hz h⟩
  · exact ⟨fun d r z hz h => mDecimal_stab d r z h hz, fun d r z hd _ h => mDecimal_mono d r z hd h⟩
  · exact ⟨fun d r z hz h => mDotDecimal_stab d r z h hz, fun d r z hd hz h => mDotDecimal_mono d r z hd hz h⟩

theorem firstSome_num_ctx (ms : List (Bytes → Option Nat)) (hg : ∀ m ∈ ms, CtxGood m) (d r z : Bytes)
    (hd : d ≠ []) (hz : TermNum z)
    (h : firstSome (ms.map fun m => (Kind.number, m (d ++ r))) = some (.number, d.length)) :
    firstSome (ms.map fun m => (Kind.number, m (d ++ z))) = some (.number, d.length) := by
  induction ms with
  | nil => simp [firstSome] at h
  | cons m rest ih =>
    have hm := hg m (by simp)
    simp only [List.map_cons] at h ⊢
    cases hmr : m (d ++ r) with
    | none =>
      rw [hmr] at h
      simp only [firstSome] at h
      rw [hm.mono d r z hd hz hmr]
      simp only [firstSome]
      exact ih (fun m' hm' => hg m' (by simp [hm'])) h
    | some k =>
      rw [hmr] at h
      simp only [firstSome, Option.some.injEq, Prod.mk.injEq, true_and] at h
      subst h
      rw [hm.stab d r z hz hmr]
      simp [firstSome]



theorem firstSome_kind (l : List (Kind × Option Nat)) (k : Kind) (n : Nat) (h : firstSome l = some (k, n)) :
    (k, some n) ∈ l := by
  induction l with
  | nil => simp [firstSome] at h
  | cons e r ih =>
    obtain ⟨k', o⟩ := e
    cases o with
    | none => simp only [firstSome] at h; exact List.mem_cons_of_mem _ (ih h)
    | some m => simp only [firstSome, Option.some.injEq, Prod.mk.injEq] at h; simp [h.1, h.2]

theorem digit_or_dot_facts : ∀ c : UInt8, (isDigit c = true ∨ c = 46) →
    c ≠ 45 ∧ c ≠ 47 ∧ c ≠ 32 ∧ c ≠ 9 ∧ c ≠ 13 ∧ c ≠ 10 ∧ c ≠ 39 ∧ c ≠ 34 ∧ c ≠ 91 := by
  intro c
  have := Pico.forall_u8 (fun c => !(isDigit c || c == 46) || (c != 45 && c != 47 && c != 32 && c != 9 && c != 13 && c != 10
    && c != 39 && c != 34 && c != 91)) (by decide +kernel) c
  intro h
  have h' : (isDigit c || c == 46) = true := by rcases h with h | h <;> simp [h]
  simp only [h', Bool.not_true, Bool.false_or, Bool.and_eq_true, bne_iff_ne, ne_eq] at this
  obtain ⟨⟨⟨⟨⟨⟨⟨⟨h1, h2⟩, h3⟩, h4⟩, h5⟩, h6⟩, h7⟩, h8⟩, h9⟩ := this
  exact ⟨h1, h2, h3, h4, h5, h6, h7, h8, h9⟩

/-- what `matchOne … = some (.number, n)` says about the cascade -/
theorem matchOne_number_inv (s : Bytes) (n : Nat) (h : matchOne shape s = some (.number, n)) :
    firstSome (candsPre s) = none ∧ firstSome (candsNum s) = some (.number, n) := by
  rw [matchOne_eq] at h
  simp only [firstSome_append] at h
  cases hpre : firstSome (candsPre s) with
  | some kn =>
    exfalso
    obtain ⟨k, m⟩ := kn
    rw [hpre] at h
    simp only [Option.some_or, Option.some.injEq, Prod.mk.injEq] at h
    have := firstSome_kind _ _ _ hpre
    rw [h.1] at this
    simp [candsPre] at this
  | none =>
    refine ⟨rfl, ?_⟩
    rw [hpre] at h
    simp only [Option.none_or] at h
    cases hnum : firstSome (candsNum s) with
    | some kn =>
      obtain ⟨k, m⟩ := kn
      rw [hnum] at h
      simpa using h
    | none =>
      exfalso
      rw [hnum] at h
      simp only [Option.none_or] at h
      rw [← firstSome_append, ← firstSome_append] at h
      have := firstSome_kind _ _ _ h
      simp [candsSym] at this

theorem num_head (s : Bytes) (n : Nat) (h : firstSome (candsNum s) = some (.number, n)) :
    ∃ c t, s = c :: t ∧ (isDigit c = true ∨ c = 46) := by
  cases s with
  | nil => simp [candsNum, firstSome, mRadix, mRadixFrac, mDecimal, mDotDecimal, spanLen_nil] at h
  | cons c t =>
    refine ⟨c, t, rfl, ?_⟩
    cases hd : isDigit c with
    | true => exact Or.inl rfl
    | false =>
      right
      cases Decidable.em (c = 46) with
      | inl h46 => exact h46
      | inr h46 => rw [candsNum_none c t hd h46] at h; cases h

/-- **numerals in context**: a numeral the lexer read from `d ++ r` is read identically from `d ++ z` -/
theorem matchOne_number_ctx (d r z : Bytes) (hd : d ≠ []) (hz : TermNum z)
    (h : matchOne shape (d ++ r) = some (.number, d.length)) :
    matchOne shape (d ++ z) = some (.number, d.length) ∧
      ∃ c t, d = c :: t ∧ (isDigit c = true ∨ c = 46) := by
  obtain ⟨-, hnum⟩ := matchOne_number_inv _ _ h
  obtain ⟨c, t, hs, hc⟩ := num_head _ _ hnum
  obtain ⟨c', t', rfl⟩ := List.exists_cons_of_ne_nil hd
  simp only [List.cons_append, List.cons.injEq] at hs
  obtain ⟨rfl, -⟩ := hs
  refine ⟨?_, c', t', rfl, hc⟩
  obtain ⟨h1, h2, h3, h4, h5, h6, -, -, -⟩ := digit_or_dot_facts c' hc
  rw [candsNum_eq] at hnum
  have := firstSome_num_ctx numMatchers numMatchers_good (c' :: t') r z hd hz hnum
  rw [← candsNum_eq] at this
  rw [matchOne_eq]
  simp only [firstSome_append, this]
  simp only [List.cons_append, candsPre_none c' _ h1 h2 h3 h4 h5 h6, Option.none_or, Option.some_or]


end Pico.C01L
