import PicoVerif.Base.Py
/-! General-purpose lemmas about `chunks`, `toHex`, `fromHex`, `rstrip`, slices and ranges. (No Mathlib.) -/
namespace Pico

/-! ### slices and `getD` -/

theorem getD_drop (l : List α) (s i : Nat) (d : α) : (l.drop s).getD i d = l.getD (s + i) d := by
  simp [List.getD_eq_getElem?_getD, List.getElem?_drop]

theorem getD_take (l : List α) (n i : Nat) (d : α) (h : i < n) : (l.take n).getD i d = l.getD i d := by
  simp [List.getD_eq_getElem?_getD, h]

/-- a full slice listed by index -/
theorem slice_eq_map_range (m : List α) (s n : Nat) (d : α) (h : s + n ≤ m.length) :
    (m.drop s).take n = (List.range n).map (fun i => m.getD (s + i) d) := by
  apply List.ext_getElem
  · simp; omega
  · intro i h1 h2
    simp at h1 h2
    simp [List.getD_eq_getElem?_getD]
    rw [List.getElem?_eq_getElem (by omega)]
    simp

theorem eq_map_range_getD (l : List α) (d : α) : l = (List.range l.length).map (fun i => l.getD i d) := by
  have := slice_eq_map_range l 0 l.length d (by omega)
  simpa using this

theorem pySlice_mid (a b c : List α) : pySlice (a ++ b ++ c) a.length (a.length + b.length) = b := by
  unfold pySlice
  rw [show a ++ b ++ c = (a ++ b) ++ c by simp, List.take_append_of_le_length (by simp)]
  rw [List.take_of_length_le (by simp)]
  simp

theorem pySlice_at (pre mid post : List α) (lo hi : Nat) (hlo : pre.length = lo)
    (hhi : lo + mid.length = hi) : pySlice (pre ++ mid ++ post) lo hi = mid := by
  subst hlo; subst hhi; exact pySlice_mid pre mid post

/-! ### ranges -/

/-- enumerate `0 .. 2n` two at a time -/
theorem map_range_two_mul (f : Nat → β) (n : Nat) :
    (List.range (2 * n)).map f = (List.range n).flatMap (fun i => [f (2 * i), f (2 * i + 1)]) := by
  induction n with
  | zero => rfl
  | succ k ih =>
    rw [show 2 * (k + 1) = 2 * k + 1 + 1 by omega, List.range_succ, List.range_succ, List.range_succ (n := k)]
    simp [ih]

theorem flatMap_range_congr {f g : Nat → List β} {n : Nat} (h : ∀ i, i < n → f i = g i) :
    (List.range n).flatMap f = (List.range n).flatMap g := by
  rw [List.flatMap_def, List.flatMap_def]
  congr 1
  exact List.map_congr_left (fun i hi => h i (List.mem_range.mp hi))

theorem map_range_congr {f g : Nat → β} {n : Nat} (h : ∀ i, i < n → f i = g i) :
    (List.range n).map f = (List.range n).map g :=
  List.map_congr_left (fun i hi => h i (List.mem_range.mp hi))

/-! ### `chunks` -/

theorem chunks_nil (n : Nat) : chunks n ([] : List α) = [] := by
  unfold chunks; simp

theorem chunks_cons_step (n : Nat) (l : List α) (hn : n ≠ 0) (hl : l ≠ []) :
    chunks n l = l.take n :: chunks n (l.drop n) := by
  rw [chunks]; simp [hn, hl]

/-- `chunks` of a list whose length is a multiple of the width -/
theorem chunks_eq (n k : Nat) (hn : 0 < n) : ∀ (l : List α), l.length = n * k →
    chunks n l = (List.range k).map (fun r => (l.drop (n * r)).take n) := by
  induction k with
  | zero =>
    intro l h
    have : l = [] := List.length_eq_zero_iff.mp (by simpa using h)
    subst this; simp [chunks_nil]
  | succ k ih =>
    intro l h
    have hl : l ≠ [] := by
      intro h0; subst h0; simp at h
      have : 0 < n * (k + 1) := Nat.mul_pos hn (by omega)
      omega
    rw [chunks_cons_step n l (by omega) hl, ih (l.drop n) (by simp [h, Nat.mul_succ]),
      List.range_succ_eq_map]
    simp [List.map_map, Function.comp_def, Nat.mul_succ, Nat.add_comm]

theorem chunks_flatten (n : Nat) (hn : 0 < n) (l : List α) : (chunks n l).flatten = l := by
  induction h : l.length using Nat.strongRecOn generalizing l with
  | _ len ih =>
    by_cases hl : l = []
    · subst hl; simp [chunks_nil]
    · rw [chunks_cons_step n l (by omega) hl, List.flatten_cons]
      have hpos : 0 < l.length := List.length_pos_iff.mpr hl
      rw [ih (l.drop n).length (by simp; omega) (l.drop n) rfl]
      simp

theorem chunks_length_of_mem (n k : Nat) (hn : 0 < n) (l : List α) (h : l.length = n * k) :
    ∀ r ∈ chunks n l, r.length = n := by
  intro r hr
  rw [chunks_eq n k hn l h] at hr
  simp only [List.mem_map, List.mem_range] at hr
  obtain ⟨i, hi, rfl⟩ := hr
  simp only [List.length_take, List.length_drop, h]
  have : n * i + n ≤ n * k := by
    calc n * i + n = n * (i + 1) := by rw [Nat.mul_succ]
      _ ≤ n * k := Nat.mul_le_mul_left n hi
  omega

theorem chunks_length (n k : Nat) (hn : 0 < n) (l : List α) (h : l.length = n * k) :
    (chunks n l).length = k := by
  rw [chunks_eq n k hn l h]; simp

/-! ### hex text -/

theorem toHex_eq_flatMap (l : Bytes) :
    toHex l = l.flatMap (fun b => [hexDigit (b.toNat / 16), hexDigit (b.toNat % 16)]) := by
  induction l with
  | nil => rfl
  | cons b bs ih => simp [toHex, ih]

/-- an ASCII hex digit character `0-9a-f` -/
def isHexChar (c : UInt8) : Bool := (48 ≤ c && c ≤ 57) || (97 ≤ c && c ≤ 102)

theorem hexDigit_isHexChar : ∀ n, n < 16 → isHexChar (hexDigit n) = true :=
  all_range (n := 16) (p := fun n => isHexChar (hexDigit n)) (by decide +kernel)

theorem isHexChar_not_space (c : UInt8) (h : isHexChar c = true) :
    isPySpace c = false ∧ c ≠ 32 ∧ c ≠ 10 := by
  have := forall_u8 (fun c => !isHexChar c || (!isPySpace c && c != 32 && c != 10)) (by decide +kernel) c
  simp [h] at this
  simp [this]

theorem toHex_isHexChar (l : Bytes) : ∀ c ∈ toHex l, isHexChar c = true := by
  induction l with
  | nil => simp [toHex]
  | cons b bs ih =>
    intro c hc
    simp only [toHex, List.mem_cons] at hc
    rcases hc with rfl | rfl | hc
    · exact hexDigit_isHexChar _ (by have := b.toNat_lt; omega)
    · exact hexDigit_isHexChar _ (by omega)
    · exact ih c hc

theorem isPySpace_of_isHexChar {c : UInt8} (h : isHexChar c = true) : isPySpace c = false :=
  (isHexChar_not_space c h).1

theorem ne32_of_isHexChar {c : UInt8} (h : isHexChar c = true) : c ≠ 32 :=
  (isHexChar_not_space c h).2.1

/-- stripping a line of non-space characters that ends with LF -/
theorem rstrip_append_lf (l : Bytes) (h : ∀ c ∈ l, isPySpace c = false) : rstrip (l ++ [10]) = l := by
  unfold rstrip
  rw [List.reverse_append]
  have h10 : isPySpace 10 = true := by decide
  simp only [List.reverse_cons, List.reverse_nil, List.nil_append, List.singleton_append,
    List.dropWhile_cons, h10, if_true]
  cases hr : l.reverse with
  | nil => simpa using hr
  | cons x xs =>
    have hx : isPySpace x = false := h x (by rw [← List.mem_reverse, hr]; simp)
    rw [List.dropWhile_cons, hx]
    simp only [Bool.false_eq_true, if_false]
    rw [← hr, List.reverse_reverse]

theorem rstrip_toHex_lf (l : Bytes) : rstrip (toHex l ++ [10]) = toHex l :=
  rstrip_append_lf _ (fun c hc => isPySpace_of_isHexChar (toHex_isHexChar l c hc))

/-- the value of the two digits of a byte -/
theorem unhex_hexDigit : ∀ n, n < 16 → unhexDigit (hexDigit n) = some n := by
  have := all_range (n := 16) (p := fun n => unhexDigit (hexDigit n) == some n) (by decide +kernel)
  intro n hn
  simpa using this n hn

end Pico
