import PicoVerif.Model.Writers
import PicoVerif.Spec.LuaLex
/-! Lexer-side lemmas for C01: the ordered matcher table as an explicit cascade, span lemmas, and
one-token lexing lemmas in context. -/
namespace Pico.C01L
open Pico.Lex Pico.Wr

/-! ### spans -/

theorem spanLen_nil (p : UInt8 → Bool) : spanLen p [] = 0 := rfl

theorem spanLen_cons (p : UInt8 → Bool) (c : UInt8) (r : Bytes) :
    spanLen p (c :: r) = if p c then 1 + spanLen p r else 0 := by
  unfold spanLen
  by_cases h : p c = true <;> simp [h]; omega

theorem spanLen_le (p : UInt8 → Bool) (s : Bytes) : spanLen p s ≤ s.length := by
  induction s with
  | nil => simp [spanLen_nil]
  | cons c r ih => rw [spanLen_cons]; split <;> simp <;> omega

theorem spanLen_append_all (p : UInt8 → Bool) (a b : Bytes) (h : ∀ x ∈ a, p x = true) :
    spanLen p (a ++ b) = a.length + spanLen p b := by
  induction a with
  | nil => simp
  | cons c r ih =>
    have hc : p c = true := h c (by simp)
    simp only [List.cons_append, spanLen_cons, hc, if_true, List.length_cons]
    rw [ih (fun x hx => h x (by simp [hx]))]; omega

theorem spanLen_head_false (p : UInt8 → Bool) (s : Bytes) (h : ∀ c, s.head? = some c → p c = false) :
    spanLen p s = 0 := by
  cases s with
  | nil => rfl
  | cons c r => rw [spanLen_cons]; simp [h c rfl]

/-- everything inside the span satisfies `p` -/
theorem spanLen_take_all (p : UInt8 → Bool) (s : Bytes) : ∀ x ∈ s.take (spanLen p s), p x = true := by
  induction s with
  | nil => simp
  | cons c r ih =>
    rw [spanLen_cons]
    by_cases hc : p c = true
    · simp only [hc, if_true]
      intro x hx
      rw [show 1 + spanLen p r = spanLen p r + 1 by omega, List.take_succ_cons] at hx
      rcases List.mem_cons.mp hx with rfl | hx
      · exact hc
      · exact ih x hx
    · simp [hc]

/-- the byte right after the span fails `p` -/
theorem spanLen_drop_head (p : UInt8 → Bool) (s : Bytes) (c : UInt8)
    (h : (s.drop (spanLen p s)).head? = some c) : p c = false := by
  induction s with
  | nil => simp at h
  | cons d r ih =>
    rw [spanLen_cons] at h
    by_cases hd : p d = true
    · simp only [hd, if_true] at h
      rw [show 1 + spanLen p r = spanLen p r + 1 by omega, List.drop_succ_cons] at h
      exact ih h
    · simp only [hd] at h
      simp at h; subst h; simpa using hd

/-- if the span of `a ++ r` stays inside `a`, it does not depend on `r` -/
theorem spanLen_append_lt (p : UInt8 → Bool) (a r z : Bytes) (h : spanLen p (a ++ r) < a.length) :
    spanLen p (a ++ z) = spanLen p (a ++ r) := by
  induction a with
  | nil => simp at h
  | cons c t ih =>
    simp only [List.cons_append, spanLen_cons] at h ⊢
    by_cases hc : p c = true
    · simp only [hc, if_true] at h ⊢
      rw [ih (by simp at h; omega)]
    · simp [hc]

/-- if the span of `a ++ r` covers `a`, all of `a` satisfies `p` -/
theorem spanLen_append_ge (p : UInt8 → Bool) (a r : Bytes) (h : a.length ≤ spanLen p (a ++ r)) :
    (∀ x ∈ a, p x = true) := by
  induction a with
  | nil => simp
  | cons c t ih =>
    simp only [List.cons_append, spanLen_cons] at h
    by_cases hc : p c = true
    · simp only [hc, if_true] at h
      intro x hx
      rcases List.mem_cons.mp hx with rfl | hx
      · exact hc
      · exact ih (by simp at h; omega) x hx
    · simp [hc] at h

/-! ### `advance` only moves the position -/

theorem advance_toks (st : LexSt) (c : Bytes) : (advance st c).toks = st.toks := by
  unfold advance
  induction c generalizing st with
  | nil => rfl
  | cons x r ih => simp only [List.foldl_cons]; rw [ih]; split <;> rfl

theorem advance_mode (st : LexSt) (c : Bytes) : (advance st c).mode = st.mode := by
  unfold advance
  induction c generalizing st with
  | nil => rfl
  | cons x r ih => simp only [List.foldl_cons]; rw [ih]; split <;> rfl

/-! ### the ordered table as an explicit cascade -/

def firstSome : List (Kind × Option Nat) → Option (Kind × Nat)
  | [] => none
  | (k, some n) :: _ => some (k, n)
  | (_, none) :: r => firstSome r

theorem firstSome_append (l1 l2 : List (Kind × Option Nat)) :
    firstSome (l1 ++ l2) = (firstSome l1).or (firstSome l2) := by
  induction l1 with
  | nil => simp [firstSome]
  | cons e r ih =>
    obtain ⟨k, o⟩ := e
    cases o <;> simp [firstSome, ih]

theorem matchOne_firstSome (l : List Entry) (s : Bytes) :
    matchOne l s = firstSome (l.map fun e => ((kindOfClass e.2.2.2).getD .symbol, entryMatch e s)) := by
  induction l with
  | nil => rfl
  | cons e r ih =>
    simp only [matchOne, List.map_cons]
    cases h : entryMatch e s <;> simp [firstSome, ih]

abbrev kws : List Bytes := Gen.matcherKeywords

/-- the symbol literals in table order -/
abbrev symLits : List Bytes := Spec.Lex.symbolSet

def candsPre (s : Bytes) : List (Kind × Option Nat) :=
  [(.comment, mLineComment 45 s), (.comment, mLineComment 47 s), (.space, mSpace s),
   (.newline, mLit [13, 10] s), (.newline, mLit [10] s), (.newline, mLit [13] s)]

def candsNum (s : Bytes) : List (Kind × Option Nat) :=
  [(.number, mRadix 120 88 isHexDigit s), (.number, mRadixFrac 120 88 isHexDigit s),
   (.number, mRadix 98 66 isBinDigit s), (.number, mRadixFrac 98 66 isBinDigit s),
   (.number, mDecimal s), (.number, mDotDecimal s)]

def candsSym (s : Bytes) : List (Kind × Option Nat) := symLits.map fun l => (.symbol, mLit l s)

theorem matchOne_eq (s : Bytes) :
    matchOne Gen.matcherShape s =
      firstSome (candsPre s ++ candsNum s ++ [(.label, mLabel s), (.keyword, mKeywordLA kws s)] ++ candsSym s ++
        [(.name, mName s), (.name, mLit [63] s)]) := by
  rw [matchOne_firstSome]; rfl

/-! ### running the lexer over a flat text -/

abbrev shape : List Entry := Gen.matcherShape
abbrev Core := Kind × Bytes × Option UInt8 × Option Bytes
def core (t : Tok) : Core := (t.kind, t.data, t.quote, t.mlq)
def sigOf (l : List Tok) : List Tok := l.filter (fun t => !t.trivia)

/-- from any normal-mode lexer state, `s` lexes to the end, back to normal mode, and the significant tokens
appended are `sigs` (modulo positions) -/
def LexRun (s : Bytes) (sigs : List Core) : Prop :=
  ∀ (st : LexSt) (fuel : Nat), st.mode = .normal → s.length + 1 ≤ fuel →
    ∃ st', processLine shape fuel st s = .ok st' ∧ st'.mode = .normal ∧
      ∃ new, st'.toks.toList = st.toks.toList ++ new ∧ (sigOf new).map core = sigs

/-- no long-bracket opening at the start of `s` -/
def NoLongOpen (s : Bytes) : Prop :=
  ∀ r, s = 91 :: r → (s.drop (1 + spanLen (· == 61) r)).head? ≠ some 91

theorem processToken_nil (st : LexSt) (hm : st.mode = .normal) : processToken shape st [] = .ok (st, 0) := by
  simp [processToken, hm, processToken.normalMatch]

theorem LexRun_nil : LexRun [] [] := by
  intro st fuel hm hf
  obtain ⟨f, rfl⟩ : ∃ f, fuel = f + 1 := ⟨fuel - 1, by simp at hf; omega⟩
  refine ⟨st, ?_, hm, [], by simp, rfl⟩
  simp [processLine, processToken_nil st hm]

theorem processToken_match (st : LexSt) (s : Bytes) (k : Kind) (n : Nat) (hm : st.mode = .normal)
    (h1 : [45, 45, 91, 91].isPrefixOf s = false) (h2 : NoLongOpen s)
    (h3 : s.head? ≠ some 39 ∧ s.head? ≠ some 34) (h4 : matchOne shape s = some (k, n)) :
    processToken shape st s =
      .ok (advance { st with toks := st.toks.push { kind := k, data := s.take n, line := st.line, col := st.col } } (s.take n), n) := by
  cases s with
  | nil => rw [show matchOne shape [] = none from by decide +kernel] at h4; cases h4
  | cons b r =>
    have hq : ¬(b = 39 ∨ b = 34) := by
      intro h; rcases h with h | h
      · exact h3.1 (by simp [h])
      · exact h3.2 (by simp [h])
    unfold processToken
    simp only [hm, h1]
    by_cases hb : b = 91
    · have := h2 r (by rw [hb])
      simp only [hb, if_true, Bool.false_eq_true, if_false]
      rw [if_neg (by simpa [hb] using this)]
      simp only [processToken.normalMatch, ← hb, hq, if_false, h4]
      rw [hm]
    · simp only [hb, if_false, Bool.false_eq_true, processToken.normalMatch, hq, h4]
      rw [hm]

def trivKind (k : Kind) : Bool := k == .space || k == .newline || k == .comment

theorem sigOf_append (a b : List Tok) : sigOf (a ++ b) = sigOf a ++ sigOf b := by simp [sigOf]

theorem LexRun_step (x z : Bytes) (c : Core) (triv : Bool) (sigs : List Core) (hx : x ≠ [])
    (h : ∀ st : LexSt, st.mode = .normal → ∃ st1, processToken shape st (x ++ z) = .ok (st1, x.length) ∧
      st1.mode = .normal ∧ ∃ t, st1.toks = st.toks.push t ∧ core t = c ∧ t.trivia = triv)
    (hz : LexRun z sigs) : LexRun (x ++ z) (if triv then sigs else c :: sigs) := by
  intro st fuel hm hf
  have hxl : 0 < x.length := List.length_pos_iff.mpr hx
  obtain ⟨f, rfl⟩ : ∃ f, fuel = f + 1 := ⟨fuel - 1, by simp at hf; omega⟩
  obtain ⟨st1, hp, hm1, t, ht, hc, htr⟩ := h st hm
  obtain ⟨st', hr, hm', new, hnew, hsig⟩ := hz st1 f hm1 (by simp at hf; omega)
  refine ⟨st', ?_, hm', t :: new, ?_, ?_⟩
  · simp only [processLine, hp]
    rw [if_neg (by omega)]
    simpa using hr
  · rw [hnew, ht]; simp
  · rw [show t :: new = [t] ++ new from rfl, sigOf_append, List.map_append, hsig]
    cases triv <;> simp [sigOf, htr, hc]

theorem LexRun_match (x z : Bytes) (k : Kind) (sigs : List Core) (hx : x ≠ [])
    (h1 : [45, 45, 91, 91].isPrefixOf (x ++ z) = false) (h2 : NoLongOpen (x ++ z))
    (h3 : (x ++ z).head? ≠ some 39 ∧ (x ++ z).head? ≠ some 34)
    (h4 : matchOne shape (x ++ z) = some (k, x.length)) (hz : LexRun z sigs) :
    LexRun (x ++ z) (if trivKind k then sigs else (k, x, none, none) :: sigs) := by
  apply LexRun_step x z (k, x, none, none) (trivKind k) sigs hx _ hz
  intro st hm
  refine ⟨_, processToken_match st (x ++ z) k x.length hm h1 h2 h3 h4, ?_,
    { kind := k, data := (x ++ z).take x.length, line := st.line, col := st.col }, ?_, ?_, ?_⟩
  · rw [advance_mode]; exact hm
  · rw [advance_toks]
  · simp [core]
  · simp [Tok.trivia, trivKind]

/-- a token read in two steps (opening delimiter switches the mode, the body is read in that mode) -/
theorem LexRun_step2 (x1 x2 z : Bytes) (c : Core) (triv : Bool) (sigs : List Core) (P : LexSt → Prop)
    (hx1 : x1 ≠ []) (hx2 : x2 ≠ [])
    (h1 : ∀ st : LexSt, st.mode = .normal → ∃ st1, processToken shape st (x1 ++ (x2 ++ z)) = .ok (st1, x1.length) ∧
      st1.toks = st.toks ∧ P st1)
    (h2 : ∀ st1 : LexSt, P st1 → ∃ st2, processToken shape st1 (x2 ++ z) = .ok (st2, x2.length) ∧
      st2.mode = .normal ∧ ∃ t, st2.toks = st1.toks.push t ∧ core t = c ∧ t.trivia = triv)
    (hz : LexRun z sigs) : LexRun (x1 ++ (x2 ++ z)) (if triv then sigs else c :: sigs) := by
  intro st fuel hm hf
  have hxl1 : 0 < x1.length := List.length_pos_iff.mpr hx1
  have hxl2 : 0 < x2.length := List.length_pos_iff.mpr hx2
  obtain ⟨f, rfl⟩ : ∃ f, fuel = f + 2 := ⟨fuel - 2, by simp at hf; omega⟩
  obtain ⟨st1, hp1, ht1, hP⟩ := h1 st hm
  obtain ⟨st2, hp2, hm2, t, ht, hc, htr⟩ := h2 st1 hP
  obtain ⟨st', hr, hm', new, hnew, hsig⟩ := hz st2 f hm2 (by simp at hf; omega)
  refine ⟨st', ?_, hm', t :: new, ?_, ?_⟩
  · simp only [processLine, hp1]
    rw [if_neg (by omega)]
    simp only [List.drop_left, hp2]
    rw [if_neg (by omega)]
    simpa using hr
  · rw [hnew, ht, ht1]; simp
  · rw [show t :: new = [t] ++ new from rfl, sigOf_append, List.map_append, hsig]
    cases triv <;> simp [sigOf, htr, hc]


end Pico.C01L
