import PicoVerif.Model.Writers
import PicoVerif.Spec.LuaLex
/-! Helper lemmas for C06 (echo writer / lexer string loop / token cover). -/
namespace Pico.C06L
open Pico.Lex Pico.Spec.Lex

/-! ### the re-escaping, piece by piece -/

/-- does the text start with a digit? -/
def hdDigit : Bytes → Bool
  | d :: _ => isDigit d
  | [] => false

/-- the spelling `escapeBody` emits for one byte, given whether a digit follows -/
def piece (q c : UInt8) (nd : Bool) : Bytes :=
  match lookup Gen.stringReverseEscapes [c] with
  | some esc =>
    92 :: (if esc.all isDigit && !esc.isEmpty && nd then List.replicate (3 - esc.length) 48 ++ esc else esc)
  | none => if c = q then [92, c] else [c]

theorem escapeBody_cons (q c : UInt8) (rest : Bytes) :
    escapeBody q (c :: rest) = piece q c (hdDigit rest) ++ escapeBody q rest := by
  cases rest <;> simp only [escapeBody, piece, hdDigit] <;>
    cases lookup Gen.stringReverseEscapes [c] <;> rfl

/-- classification of the reverse-escape table, per byte -/
def revClassOK (c : UInt8) : Bool :=
  let r := lookup Gen.stringReverseEscapes [c]
  (r == none && c != 92 && c != 0) || (c == 0 && r == some [48]) || (c == 14 && r == some [49, 52]) ||
  (c == 15 && r == some [49, 53]) ||
  (let x := (r.getD []).headD 0
   r == some [x] && !isDigit x && x != 120 && Spec.Lex.escape [x] == some ([c], 1))

theorem rev_class_ok : ∀ c, revClassOK c = true := forall_u8 _ (by decide +kernel)

theorem rev_class (c : UInt8) :
    (lookup Gen.stringReverseEscapes [c] = none ∧ c ≠ 92) ∨
    (c = 0 ∧ lookup Gen.stringReverseEscapes [c] = some [48]) ∨
    (c = 14 ∧ lookup Gen.stringReverseEscapes [c] = some [49, 52]) ∨
    (c = 15 ∧ lookup Gen.stringReverseEscapes [c] = some [49, 53]) ∨
    (∃ x, lookup Gen.stringReverseEscapes [c] = some [x] ∧ isDigit x = false ∧ x ≠ 120 ∧
      Spec.Lex.escape [x] = some ([c], 1)) := by
  have h := rev_class_ok c
  simp only [revClassOK, Bool.or_eq_true, Bool.and_eq_true, beq_iff_eq, bne_iff_ne, ne_eq,
    Bool.not_eq_true'] at h
  rcases h with (((h | h) | h) | h) | h
  · exact Or.inl ⟨h.1.1, h.1.2⟩
  · exact Or.inr (Or.inl h)
  · exact Or.inr (Or.inr (Or.inl h))
  · exact Or.inr (Or.inr (Or.inr (Or.inl h)))
  · exact Or.inr (Or.inr (Or.inr (Or.inr ⟨_, h.1.1.1, h.1.1.2, h.1.2, h.2⟩)))

def digitRevOK (c : UInt8) : Bool := !isDigit c || lookup Gen.stringReverseEscapes [c] == none

theorem digit_rev_ok : ∀ c, digitRevOK c = true := forall_u8 _ (by decide +kernel)

theorem digit_rev (c : UInt8) (h : isDigit c = true) : lookup Gen.stringReverseEscapes [c] = none := by
  have := digit_rev_ok c
  simpa [digitRevOK, h] using this

/-! ### the reference grammar reads each piece back -/

theorem escape_single (x : UInt8) (t : Bytes) (h1 : isDigit x = false) (h2 : x ≠ 120) :
    Spec.Lex.escape (x :: t) = Spec.Lex.escape [x] := by
  simp [Spec.Lex.escape, h1, h2]

theorem hdDigit_false_takeWhile (t : Bytes) (h : hdDigit t = false) : t.takeWhile isDigit = [] := by
  cases t with
  | nil => rfl
  | cons d t => simp [hdDigit] at h; simp [h]

theorem hdDigit_true (t : Bytes) (h : hdDigit t = true) : ∃ d t', t = d :: t' ∧ isDigit d = true := by
  cases t with
  | nil => simp [hdDigit] at h
  | cons d t => exact ⟨d, t, rfl, by simpa [hdDigit] using h⟩

theorem quoted_piece (q : UInt8) (hq : q = 34 ∨ q = 39) (c : UInt8) (t acc : Bytes) (n fuel : Nat) :
    quoted q (fuel + 1) (piece q c (hdDigit t) ++ t) acc n
      = quoted q fuel t (acc ++ [c]) (n + (piece q c (hdDigit t)).length) := by
  have hq92 : (92 : UInt8) ≠ q := by rcases hq with rfl | rfl <;> decide
  have hq48 : (48 : UInt8) ≠ q := by rcases hq with rfl | rfl <;> decide
  rcases rev_class c with ⟨h, hc⟩ | ⟨rfl, h⟩ | ⟨rfl, h⟩ | ⟨rfl, h⟩ | ⟨x, h, hx1, hx2, hx3⟩
  · simp only [piece, h]
    by_cases hcq : c = q
    · subst hcq
      have : Spec.Lex.escape (c :: t) = some ([c], 1) := by
        rcases hq with rfl | rfl <;> simp [Spec.Lex.escape, isDigit]
      simp [quoted, hq92, this]
    · simp [quoted, hcq, hc]
  · simp only [piece, h]
    cases ht : hdDigit t
    · have := hdDigit_false_takeWhile t ht
      simp [quoted, hq92, Spec.Lex.escape, isDigit, this, decToNat]
    · obtain ⟨d, t', rfl, hd⟩ := hdDigit_true t ht
      simp [quoted, hq92, Spec.Lex.escape, isDigit, List.takeWhile_cons, decToNat]
  · simp only [piece, h]
    cases ht : hdDigit t
    · have := hdDigit_false_takeWhile t ht
      simp [quoted, hq92, Spec.Lex.escape, isDigit, this, decToNat]
    · obtain ⟨d, t', rfl, hd⟩ := hdDigit_true t ht
      simp [quoted, hq92, Spec.Lex.escape, isDigit, List.takeWhile_cons, decToNat]
  · simp only [piece, h]
    cases ht : hdDigit t
    · have := hdDigit_false_takeWhile t ht
      simp [quoted, hq92, Spec.Lex.escape, isDigit, this, decToNat]
    · obtain ⟨d, t', rfl, hd⟩ := hdDigit_true t ht
      simp [quoted, hq92, Spec.Lex.escape, isDigit, List.takeWhile_cons, decToNat]
  · simp only [piece, h]
    simp [quoted, hq92, hx1, escape_single x t hx1 hx2, hx3]

theorem piece_length_pos (q c : UInt8) (nd : Bool) : 0 < (piece q c nd).length := by
  unfold piece; split
  · simp
  · split <;> simp

theorem piece_head_nondigit (q : UInt8) (hq : q = 34 ∨ q = 39) (c : UInt8) (nd : Bool) (t : Bytes) :
    hdDigit (piece q c nd ++ t) = isDigit c := by
  by_cases hd : isDigit c = true
  · have hcq : c ≠ q := by rintro rfl; rcases hq with rfl | rfl <;> simp [isDigit] at hd
    simp [piece, digit_rev c hd, hcq, hdDigit]
  · simp only [Bool.not_eq_true] at hd
    have h92 : isDigit 92 = false := by decide
    unfold piece; split
    · simp [hdDigit, h92, hd]
    · split <;> simp [hdDigit, h92, hd]

theorem hdDigit_escapeBody (q : UInt8) (hq : q = 34 ∨ q = 39) (v next : Bytes) :
    hdDigit (escapeBody q v ++ q :: next) = hdDigit v := by
  cases v with
  | nil => rcases hq with rfl | rfl <;> simp [escapeBody, hdDigit, isDigit]
  | cons c rest =>
    rw [escapeBody_cons, List.append_assoc, piece_head_nondigit q hq]; rfl

theorem reescape_gen (q : UInt8) (hq : q = 34 ∨ q = 39) (next : Bytes) :
    ∀ (v acc : Bytes) (n fuel : Nat), (escapeBody q v).length + 1 ≤ fuel →
      quoted q fuel (escapeBody q v ++ q :: next) acc n = some (acc ++ v, n + (escapeBody q v).length + 1) := by
  intro v
  induction v with
  | nil =>
    intro acc n fuel hf
    obtain ⟨f, rfl⟩ : ∃ f, fuel = f + 1 := ⟨fuel - 1, by omega⟩
    simp [escapeBody, quoted]
  | cons c rest ih =>
    intro acc n fuel hf
    obtain ⟨f, rfl⟩ : ∃ f, fuel = f + 1 := ⟨fuel - 1, by omega⟩
    rw [escapeBody_cons] at hf ⊢
    rw [List.append_assoc, ← hdDigit_escapeBody q hq rest next, quoted_piece q hq, ih]
    · simp [List.length_append]; omega
    · have := piece_length_pos q c (hdDigit (escapeBody q rest ++ q :: next))
      rw [hdDigit_escapeBody q hq] at this
      simp only [List.length_append] at hf; omega

/-! ### the lexer's escape decoder agrees with the reference grammar -/

theorem take_min_takeWhile {α} (p : α → Bool) (l : List α) (k : Nat) :
    l.take (min k (l.takeWhile p).length) = (l.takeWhile p).take k := by
  conv => lhs; arg 2; rw [← List.takeWhile_append_dropWhile (p := p) (l := l)]
  rw [List.take_append_of_le_length (by omega), List.take_eq_take_iff]; omega

theorem spanLen_cons_false (x : UInt8) (t : Bytes) (h : isDigit x = false) : spanLen isDigit (x :: t) = 0 := by
  simp [spanLen, h]

theorem escapeAt_nondigit (x : UInt8) (t : Bytes) (h1 : isDigit x = false) (h2 : x ≠ 120) :
    escapeAt (x :: t) = match lookup Gen.stringEscapes [x] with
      | some v => some (v, 2)
      | none => some ([92], 1) := by
  unfold escapeAt
  simp only [spanLen_cons_false x t h1]
  match t with
  | [] => simp; rfl
  | [a] => simp; rfl
  | a :: b :: t => simp [h2]; rfl

theorem unhex_isHex (h : UInt8) (a : Nat) (e : unhexDigit h = some a) : isHexDigit h = true := by
  unfold unhexDigit at e
  simp only [isHexDigit, isDigit, Bool.or_eq_true, Bool.and_eq_true, decide_eq_true_eq]
  split at e
  · left; left; assumption
  · split at e
    · left; right; assumption
    · split at e
      · right; assumption
      · cases e

def escOneOK (c : UInt8) : Bool :=
  match Spec.Lex.escape [c] with
  | some (bs, k) => isDigit c || c == 120 || (lookup Gen.stringEscapes [c] == some bs && k == 1)
  | none => true

theorem esc_one_ok : ∀ c, escOneOK c = true := forall_u8 _ (by decide +kernel)

theorem esc_one (c : UInt8) (bs : Bytes) (k : Nat) (h1 : isDigit c = false) (h2 : c ≠ 120)
    (h : Spec.Lex.escape [c] = some (bs, k)) : lookup Gen.stringEscapes [c] = some bs ∧ k = 1 := by
  have := esc_one_ok c
  simpa [escOneOK, h, h1, h2] using this

theorem escape_escapeAt (rest bs : Bytes) (k : Nat) (h : Spec.Lex.escape rest = some (bs, k)) :
    escapeAt rest = some (bs, k + 1) := by
  cases rest with
  | nil => simp [Spec.Lex.escape] at h
  | cons c r =>
    by_cases hd : isDigit c = true
    · simp only [Spec.Lex.escape, hd, if_true] at h
      split at h
      · rename_i hv
        cases h
        unfold escapeAt
        have hpos : 0 < spanLen isDigit (c :: r) := by simp [spanLen, hd]
        simp only [spanLen, take_min_takeWhile]
        simp only [spanLen] at hpos
        have : min 3 (List.takeWhile isDigit (c :: r)).length > 0 := by omega
        simp only [this, if_true]
        rw [if_neg (by omega)]
        simp [List.length_take, Nat.add_comm]
      · cases h
    · simp only [Bool.not_eq_true] at hd
      by_cases hx : c = 120
      · subst hx
        simp only [Spec.Lex.escape, hd, Bool.false_eq_true, if_false, if_true] at h
        match r, h with
        | h1 :: h2 :: t, h =>
          dsimp only at h
          cases ea : unhexDigit h1 <;> cases eb : unhexDigit h2 <;> simp only [ea, eb] at h <;> cases h
          unfold escapeAt
          simp [spanLen_cons_false _ _ hd, unhex_isHex _ _ ea, unhex_isHex _ _ eb, ea, eb]
      · rw [escapeAt_nondigit c r hd hx]
        rw [escape_single c r hd hx] at h
        obtain ⟨h1, rfl⟩ := esc_one c bs k hd hx h
        simp [h1]

theorem decode_agrees_gen (q : UInt8) (v : Bytes) (m : Nat) :
    ∀ (fuel : Nat) (s acc : Bytes) (n fuel' : Nat), quoted q fuel s acc n = some (v, m) →
      s.length + 1 ≤ fuel' → strLoop q fuel' s acc n = .ok (true, v, m) := by
  intro fuel
  induction fuel with
  | zero => intro s acc n fuel' h; simp [quoted] at h
  | succ fuel ih =>
    intro s acc n fuel' h hf
    cases s with
    | nil => simp [quoted] at h
    | cons c rest =>
      obtain ⟨f', rfl⟩ : ∃ f, fuel' = f + 1 := ⟨fuel' - 1, by simp at hf; omega⟩
      simp only [List.length_cons] at hf
      simp only [quoted] at h
      simp only [strLoop]
      by_cases hc : c = q
      · simp only [hc, if_true] at h ⊢
        cases h; rfl
      · simp only [hc, if_false] at h ⊢
        by_cases h92 : c = 92
        · simp only [h92, if_true] at h ⊢
          cases he : Spec.Lex.escape rest with
          | none => simp [he] at h
          | some p =>
            obtain ⟨bs, k⟩ := p
            simp only [he] at h
            simp only [escape_escapeAt rest bs k he]
            have : List.drop (k + 1) (92 :: rest) = rest.drop k := by simp
            rw [this, show n + (k + 1) = n + 1 + k by omega]
            apply ih _ _ _ _ h
            simp only [List.length_drop]; omega
        · simp only [h92, if_false] at h ⊢
          exact ih _ _ _ _ h (by omega)

/-! ### `escapeAt` / `strLoop`: extent, prefix stability, fuel -/

theorem spanLen_le (p : UInt8 → Bool) (s : Bytes) : spanLen p s ≤ s.length := by
  unfold spanLen; induction s with
  | nil => simp
  | cons a s ih => rw [List.takeWhile_cons]; split <;> simp <;> omega

theorem takeWhile_take' {α} (p : α → Bool) (l : List α) (m : Nat) :
    (l.take m).takeWhile p = (l.takeWhile p).take m := by
  induction l generalizing m with
  | nil => simp
  | cons a l ih =>
    cases m with
    | zero => simp
    | succ m =>
      simp only [List.take_succ_cons, List.takeWhile_cons]
      split <;> simp [ih]

theorem spanLen_take (p : UInt8 → Bool) (s : Bytes) (m : Nat) : spanLen p (s.take m) = min m (spanLen p s) := by
  simp [spanLen, takeWhile_take', List.length_take]

theorem escapeAt_bounds (rest bs : Bytes) (n : Nat) (h : escapeAt rest = some (bs, n)) :
    1 ≤ n ∧ n ≤ rest.length + 1 := by
  have := spanLen_le isDigit rest
  by_cases hnd : min 3 (spanLen isDigit rest) > 0
  · unfold escapeAt at h
    simp only [hnd, if_true] at h
    split at h
    · cases h
    · cases h; omega
  · have hz : spanLen isDigit rest = 0 := by omega
    unfold escapeAt at h
    simp only [hz, Nat.min_zero, gt_iff_lt, Nat.lt_irrefl, if_false] at h
    split at h
    · split at h
      · cases h; simp
      · split at h <;> cases h <;> simp
    · split at h <;> cases h <;> simp
    · cases h; simp

theorem escapeAt_take (rest bs : Bytes) (n m : Nat) (h : escapeAt rest = some (bs, n)) (hm : n ≤ m) :
    escapeAt (rest.take m) = some (bs, n) := by
  by_cases hnd : min 3 (spanLen isDigit rest) > 0
  · unfold escapeAt at h ⊢
    simp only [hnd, if_true] at h
    split at h
    · cases h
    · rename_i hv
      cases h
      have e : min 3 (spanLen isDigit (rest.take m)) = min 3 (spanLen isDigit rest) := by
        rw [spanLen_take]; omega
      simp only [e, hnd, if_true, List.take_take]
      rw [show min (min 3 (spanLen isDigit rest)) m = min 3 (spanLen isDigit rest) by omega]
      simp [hv]
  · have hz : spanLen isDigit rest = 0 := by omega
    have hz' : spanLen isDigit (rest.take m) = 0 := by rw [spanLen_take, hz]; simp
    unfold escapeAt at h ⊢
    simp only [hz, hz'] at h ⊢
    obtain ⟨m', rfl⟩ : ∃ m', m = m' + 1 := ⟨m - 1, by have := escapeAt_bounds rest bs n (by unfold escapeAt; simpa [hz] using h); omega⟩
    match rest, h with
    | [], h => simpa using h
    | [x], h => simpa using h
    | [x, h1], h =>
      cases m' <;> simpa using h
    | x :: h1 :: h2 :: t, h =>
      simp only [Nat.min_zero, gt_iff_lt, Nat.lt_irrefl, if_false] at h ⊢
      split at h
      · cases h
        obtain ⟨m'', rfl⟩ : ∃ k, m' = k + 3 := ⟨m' - 3, by omega⟩
        rename_i hc
        simp [hc]
      · rename_i hc
        match m' with
        | 0 => simpa using h
        | 1 => simpa using h
        | m'' + 2 => simpa [hc] using h

theorem strLoop_fuel (q : UInt8) : ∀ (fuel fuel' : Nat) (s acc : Bytes) (i : Nat),
    s.length < fuel → s.length < fuel' → strLoop q fuel s acc i = strLoop q fuel' s acc i := by
  intro fuel
  induction fuel with
  | zero => intro _ _ _ _ h; omega
  | succ fuel ih =>
    intro fuel' s acc i h h'
    obtain ⟨f', rfl⟩ : ∃ f, fuel' = f + 1 := ⟨fuel' - 1, by omega⟩
    cases s with
    | nil => simp [strLoop]
    | cons c rest =>
      simp only [strLoop]
      split
      · rfl
      · split
        · cases he : escapeAt rest with
          | none => rfl
          | some p =>
            obtain ⟨bs, n⟩ := p
            have := escapeAt_bounds rest bs n he
            simp only
            apply ih <;> simp only [List.length_drop, List.length_cons] at * <;> omega
        · apply ih <;> simp only [List.length_cons] at * <;> omega

theorem strLoop_unclosed (q : UInt8) : ∀ (fuel : Nat) (s acc : Bytes) (i : Nat) (acc' : Bytes) (j : Nat),
    s.length < fuel → strLoop q fuel s acc i = .ok (false, acc', j) → j = i + s.length := by
  intro fuel
  induction fuel with
  | zero => intro _ _ _ _ _ h; omega
  | succ fuel ih =>
    intro s acc i acc' j hf h
    cases s with
    | nil => simp [strLoop] at h; simp [h.2]
    | cons c rest =>
      simp only [strLoop] at h
      split at h
      · cases h
      · split at h
        · cases he : escapeAt rest with
          | none => simp [he] at h
          | some p =>
            obtain ⟨bs, n⟩ := p
            have hb := escapeAt_bounds rest bs n he
            simp only [he] at h
            have := ih _ _ _ _ _ (by simp only [List.length_drop, List.length_cons] at *; omega) h
            simp only [List.length_drop, List.length_cons] at this ⊢; omega
        · have := ih _ _ _ _ _ (by simp only [List.length_cons] at *; omega) h
          simp only [List.length_cons]; omega

/-- a closed run ends with the quote, and reading just the consumed prefix gives the same result -/
theorem strLoop_closed (q : UInt8) : ∀ (fuel : Nat) (s acc : Bytes) (i : Nat) (acc' : Bytes) (j : Nat),
    strLoop q fuel s acc i = .ok (true, acc', j) →
      i < j ∧ j - i ≤ s.length ∧ (s.take (j - i)).getLast? = some q ∧
      strLoop q fuel (s.take (j - i)) acc i = .ok (true, acc', j) := by
  intro fuel
  induction fuel with
  | zero => intro _ _ _ _ _ h; simp [strLoop] at h
  | succ fuel ih =>
    intro s acc i acc' j h
    cases s with
    | nil => simp [strLoop] at h
    | cons c rest =>
      simp only [strLoop] at h
      split at h
      · rename_i hc
        cases h
        simp [strLoop, hc]
      · rename_i hc
        split at h
        · rename_i h92
          subst h92
          cases he : escapeAt rest with
          | none => simp [he] at h
          | some p =>
            obtain ⟨bs, n⟩ := p
            have hb := escapeAt_bounds rest bs n he
            simp only [he] at h
            obtain ⟨h1, h2, h3, h4⟩ := ih _ _ _ _ _ h
            simp only [List.length_drop, List.length_cons] at h2
            have hji : j - i = (j - i - 1) + 1 := by omega
            refine ⟨by omega, by simp only [List.length_cons]; omega, ?_, ?_⟩
            · have : ((92:UInt8) :: rest).take (j - i) = ((92:UInt8) :: rest).take n ++ (((92:UInt8) :: rest).drop n).take (j - (i + n)) := by
                rw [← List.take_add]; congr 1; omega
              rw [this, List.getLast?_append, h3]; rfl
            · rw [hji, List.take_succ_cons]
              simp only [strLoop, hc, if_false, if_true]
              rw [escapeAt_take rest bs n (j - i - 1) he (by omega)]
              simp only
              have : List.drop n (92 :: List.take (j - i - 1) rest) = (((92:UInt8) :: rest).drop n).take (j - (i + n)) := by
                rw [← List.take_succ_cons, ← hji, List.drop_take]; congr 1; omega
              rw [this]; exact h4
        · obtain ⟨h1, h2, h3, h4⟩ := ih _ _ _ _ _ h
          have hji : j - i = (j - (i + 1)) + 1 := by omega
          refine ⟨by omega, by simp only [List.length_cons]; omega, ?_, ?_⟩
          · rw [hji, List.take_succ_cons, List.getLast?_cons, h3]; rfl
          · rw [hji, List.take_succ_cons]
            rename_i h92
            simp only [strLoop, hc, h92, if_false]
            exact h4

/-! ### token cover: the invariant of the lexer state machine -/

/-- copy of `C06.RawOf` (the property file imports this one) -/
def RawOf' (t : Tok) (r : Bytes) : Prop :=
  if t.kind = .string ∧ t.mlq = none then
    ∃ q body, t.quote = some q ∧ (q = 34 ∨ q = 39) ∧ r = q :: body ++ [q] ∧
      strLoop q (body.length + 2) (body ++ [q]) [] 0 = .ok (true, t.data, body.length + 1)
  else r = t.code

theorem posAfter_append (l c : Nat) (a b : Bytes) :
    posAfter l c (a ++ b) = posAfter (posAfter l c a).1 (posAfter l c a).2 b := by
  simp [posAfter, List.foldl_append]

theorem advance_eq (st : LexSt) (cs : Bytes) :
    advance st cs = { st with line := (posAfter st.line st.col cs).1, col := (posAfter st.line st.col cs).2 } := by
  induction cs generalizing st with
  | nil => rfl
  | cons c cs ih =>
    simp only [advance, posAfter, List.foldl_cons] at ih ⊢
    rw [ih]
    split <;> rfl

def TokOK (toks : Array Tok) (raws : List Bytes) : Prop :=
  raws.length = toks.size ∧ ∀ i (hi : i < toks.size), RawOf' toks[i] (raws.getD i []) ∧
    (toks[i].line, toks[i].col) = posAfter 0 0 (raws.take i).flatten

theorem TokOK.push {toks : Array Tok} {raws : List Bytes} (h : TokOK toks raws) (t : Tok) (r : Bytes)
    (h1 : RawOf' t r) (h2 : (t.line, t.col) = posAfter 0 0 raws.flatten) : TokOK (toks.push t) (raws ++ [r]) := by
  obtain ⟨hl, hi⟩ := h
  refine ⟨by simp [hl], ?_⟩
  intro i hi'
  simp only [Array.size_push] at hi'
  by_cases hlt : i < toks.size
  · rw [Array.getElem_push_lt hlt]
    have e1 : (raws ++ [r]).getD i [] = raws.getD i [] := by
      simp only [List.getD_eq_getElem?_getD]; rw [List.getElem?_append_left (by omega)]
    have e2 : (raws ++ [r]).take i = raws.take i := List.take_append_of_le_length (by omega)
    rw [e1, e2]; exact hi i hlt
  · have : i = toks.size := by omega
    subst this
    have e1 : (raws ++ [r]).getD toks.size [] = r := by
      simp only [List.getD_eq_getElem?_getD]; rw [List.getElem?_append_right (by omega)]; simp [hl]
    have e2 : (raws ++ [r]).take toks.size = raws := by
      rw [List.take_append_of_le_length (by omega), List.take_of_length_le (by omega)]
    rw [e1, e2, Array.getElem_push_eq]; exact ⟨h1, h2⟩

def ModeRel (m : Mode) (raws : List Bytes) (pending : Bytes) : Prop :=
  match m with
  | .normal => pending = []
  | .inStr q l c acc => (q = 34 ∨ q = 39) ∧ pending = [q] ∧ acc = [] ∧ (l, c) = posAfter 0 0 raws.flatten
  | .inComment l c acc => pending = acc ∧ (l, c) = posAfter 0 0 raws.flatten
  | .inLong d l c acc => pending = [91] ++ d ++ [91] ++ acc ∧ (l, c) = posAfter 0 0 raws.flatten

def Inv (consumed : Bytes) (st : LexSt) : Prop :=
  ∃ (raws : List Bytes) (pending : Bytes), TokOK st.toks raws ∧ raws.flatten ++ pending = consumed ∧
    (st.line, st.col) = posAfter 0 0 consumed ∧ ModeRel st.mode raws pending

theorem inv_advance (consumed add : Bytes) (st' : LexSt) (raws : List Bytes) (pending : Bytes)
    (hpos : (st'.line, st'.col) = posAfter 0 0 consumed) (htok : TokOK st'.toks raws)
    (hflat : raws.flatten ++ pending = consumed ++ add) (hmode : ModeRel st'.mode raws pending) :
    Inv (consumed ++ add) (advance st' add) := by
  rw [advance_eq]
  refine ⟨raws, pending, htok, hflat, ?_, hmode⟩
  rw [posAfter_append, ← hpos]

theorem findSub_spec (pat : Bytes) : ∀ (s : Bytes) (i j : Nat), findSub pat s i = some j →
    i ≤ j ∧ pat.isPrefixOf (s.drop (j - i)) = true := by
  intro s
  induction s with
  | nil =>
    intro i j h
    simp only [findSub] at h
    split at h
    · cases h; rename_i hp; simp at hp; simp [hp]
    · cases h
  | cons c rest ih =>
    intro i j h
    simp only [findSub] at h
    split at h
    · cases h; rename_i hp; simp [hp]
    · obtain ⟨h1, h2⟩ := ih _ _ h
      refine ⟨by omega, ?_⟩
      rw [show j - i = (j - (i + 1)) + 1 by omega, List.drop_succ_cons]; exact h2

theorem take_of_isPrefixOf (pat s : Bytes) (k : Nat) (h : pat.isPrefixOf (s.drop k) = true) :
    s.take (k + pat.length) = s.take k ++ pat := by
  rw [List.isPrefixOf_iff_prefix, List.prefix_iff_eq_take] at h
  rw [List.take_add, ← h]

/-- no pattern of the table makes a string token -/
def NoString (shape : List Entry) : Prop :=
  ∀ s k n, matchOne shape s = some (k, n) → k ≠ .string

theorem noString_of_all (shape : List Entry)
    (h : shape.all (fun e => (kindOfClass e.2.2.2).getD .symbol != .string) = true) : NoString shape := by
  intro s k n
  induction shape with
  | nil => simp [matchOne]
  | cons e rest ih =>
    simp only [List.all_cons, Bool.and_eq_true, bne_iff_ne, ne_eq] at h
    simp only [matchOne]
    split
    · intro hh; cases hh; exact h.1
    · exact ih h.2

theorem noString_table : NoString Gen.matcherShape := noString_of_all _ (by decide +kernel)

theorem rawOf'_nonstring (t : Tok) (h : t.kind ≠ .string) : RawOf' t t.data := by
  simp [RawOf', Tok.code, h]

theorem pt_inComment (shape : List Entry) (st : LexSt) (s consumed : Bytes) (l c : Nat) (acc : Bytes)
    (hm : st.mode = .inComment l c acc) (hinv : Inv consumed st) (st' : LexSt) (i : Nat)
    (h : processToken shape st s = .ok (st', i)) : Inv (consumed ++ s.take i) st' := by
  obtain ⟨raws, pending, htok, hflat, hpos, hmode⟩ := hinv
  rw [hm] at hmode
  obtain ⟨rfl, hlc⟩ := hmode
  simp only [processToken, hm] at h
  cases hf : findSub [93, 93] s 0 with
  | none =>
    simp only [hf] at h
    cases h
    refine inv_advance _ _ _ raws (pending ++ s) ?_ ?_ ?_ ?_
    · exact hpos
    · exact htok
    · simp [← hflat]
    · exact ⟨rfl, hlc⟩
  | some k =>
    simp only [hf] at h
    cases h
    refine inv_advance _ _ _ (raws ++ [pending ++ s.take (k + 2)]) [] ?_ ?_ ?_ ?_
    · exact hpos
    · exact htok.push _ _ (rawOf'_nonstring _ (by simp)) hlc
    · simp [← hflat]
    · rfl

theorem pt_inLong (shape : List Entry) (st : LexSt) (s consumed : Bytes) (d : Bytes) (l c : Nat) (acc : Bytes)
    (hm : st.mode = .inLong d l c acc) (hinv : Inv consumed st) (st' : LexSt) (i : Nat)
    (h : processToken shape st s = .ok (st', i)) : Inv (consumed ++ s.take i) st' := by
  obtain ⟨raws, pending, htok, hflat, hpos, hmode⟩ := hinv
  rw [hm] at hmode
  obtain ⟨rfl, hlc⟩ := hmode
  simp only [processToken, hm] at h
  cases hf : findSub ([93] ++ d ++ [93]) s 0 with
  | none =>
    simp only [hf] at h
    cases h
    refine inv_advance _ _ _ raws ([91] ++ d ++ [91] ++ (acc ++ s)) ?_ ?_ ?_ ?_
    · exact hpos
    · exact htok
    · simp [← hflat]
    · exact ⟨rfl, hlc⟩
  | some k =>
    simp only [hf] at h
    cases h
    have hp := (findSub_spec _ _ _ _ hf).2
    have ht := take_of_isPrefixOf _ s k hp
    have hlen : k + ([93] ++ d ++ [93]).length = k + d.length + 2 := by simp; omega
    rw [hlen] at ht
    refine inv_advance _ _ _ (raws ++ [[91] ++ d ++ [91] ++ (acc ++ s.take k) ++ [93] ++ d ++ [93]]) [] ?_ ?_ ?_ ?_
    · exact hpos
    · refine htok.push _ _ ?_ hlc
      simp [RawOf', Tok.code]
    · simp [← hflat, ht]
    · rfl

theorem pt_inStr (shape : List Entry) (st : LexSt) (s consumed : Bytes) (q : UInt8) (l c : Nat) (acc : Bytes)
    (hm : st.mode = .inStr q l c acc) (hinv : Inv consumed st) (st' : LexSt) (i : Nat)
    (h : processToken shape st s = .ok (st', i)) :
    Inv (consumed ++ s.take i) st' ∨ (i = s.length ∧ st'.mode ≠ .normal) := by
  obtain ⟨raws, pending, htok, hflat, hpos, hmode⟩ := hinv
  rw [hm] at hmode
  obtain ⟨hq, rfl, rfl, hlc⟩ := hmode
  simp only [processToken, hm] at h
  cases hs : strLoop q (s.length + 1) s [] 0 with
  | error e => simp [hs] at h
  | ok res =>
    obtain ⟨closed, acc', j⟩ := res
    simp only [hs] at h
    cases closed with
    | false =>
      simp only [Bool.false_eq_true, if_false] at h
      cases h
      right
      have := strLoop_unclosed q _ _ _ _ _ _ (Nat.lt_succ_self _) hs
      refine ⟨by omega, ?_⟩
      rw [advance_eq]; simp
    | true =>
      simp only [if_true] at h
      cases h
      left
      obtain ⟨h1, h2, h3, h4⟩ := strLoop_closed q _ _ _ _ _ _ hs
      simp only [Nat.sub_zero] at h2 h3 h4
      obtain ⟨body, hbody⟩ := List.getLast?_eq_some_iff.mp h3
      have hblen : body.length = i - 1 := by
        have := congrArg List.length hbody
        simp only [List.length_take, List.length_append, List.length_singleton] at this; omega
      refine inv_advance _ _ _ (raws ++ [q :: s.take i]) [] ?_ ?_ ?_ ?_
      · exact hpos
      · refine htok.push _ _ ?_ hlc
        simp only [RawOf', and_self, if_true]
        refine ⟨q, body, rfl, hq, by rw [hbody]; rfl, ?_⟩
        rw [← hbody, hblen, show i - 1 + 1 = i by omega, ← h4]
        apply strLoop_fuel <;> simp only [List.length_take] <;> omega
      · simp [← hflat]
      · rfl

theorem inv_zero (consumed s : Bytes) (st : LexSt) (h : Inv consumed st) : Inv (consumed ++ s.take 0) st := by
  simpa using h

theorem pt_normalMatch (shape : List Entry) (hns : NoString shape) (st : LexSt) (s consumed : Bytes)
    (hm : st.mode = .normal) (hinv : Inv consumed st) (st' : LexSt) (i : Nat)
    (h : processToken.normalMatch shape st s (fun st' i => .ok (advance st' (s.take i), i)) = .ok (st', i)) :
    Inv (consumed ++ s.take i) st' := by
  have hinv0 := hinv
  obtain ⟨raws, pending, htok, hflat, hpos, hmode⟩ := hinv
  rw [hm] at hmode
  have hp : pending = [] := hmode
  subst hp
  simp only [List.append_nil] at hflat
  unfold processToken.normalMatch at h
  split at h
  · rename_i q rest
    split at h
    · rename_i hq
      cases h
      refine inv_advance _ _ _ raws [q] ?_ ?_ ?_ ?_
      · exact hpos
      · exact htok
      · simp [hflat]
      · exact ⟨hq.symm, rfl, rfl, by rw [hflat]; exact hpos⟩
    · split at h
      · rename_i k n hmo
        cases h
        refine inv_advance _ _ _ (raws ++ [(q :: rest).take i]) [] ?_ ?_ ?_ ?_
        · exact hpos
        · exact htok.push _ _ (rawOf'_nonstring _ (hns _ _ _ hmo)) (by rw [hflat]; exact hpos)
        · simp [hflat]
        · rw [hm]; rfl
      · cases h; exact inv_zero _ _ _ hinv0
  · cases h; exact inv_zero _ _ _ hinv0

theorem long_open_aux : ∀ (r : Bytes), (r.drop (spanLen (· == 61) r)).head? = some 91 →
    r.take (spanLen (· == 61) r + 1) = List.replicate (spanLen (· == 61) r) 61 ++ [91] := by
  intro r
  induction r with
  | nil => simp [spanLen]
  | cons a r ih =>
    by_cases ha : a = 61
    · subst ha
      have e : spanLen (· == 61) ((61 : UInt8) :: r) = spanLen (· == 61) r + 1 := by simp [spanLen]
      rw [e]
      intro h
      simp only [List.drop_succ_cons] at h
      rw [List.take_succ_cons, ih h, List.replicate_succ]; rfl
    · have e : spanLen (· == 61) (a :: r) = 0 := by simp [spanLen, ha]
      rw [e]
      intro h
      simp only [List.drop_zero, List.head?_cons, Option.some.injEq] at h
      simp [h]

theorem long_open (r : Bytes) (h : (((91 : UInt8) :: r).drop (1 + spanLen (· == 61) r)).head? = some 91) :
    ((91 : UInt8) :: r).take (spanLen (· == 61) r + 2)
      = [91] ++ List.replicate (spanLen (· == 61) r) 61 ++ [91] := by
  rw [Nat.add_comm 1, List.drop_succ_cons] at h
  rw [List.take_succ_cons, long_open_aux r h]; rfl

theorem pt_normal (shape : List Entry) (hns : NoString shape) (st : LexSt) (s consumed : Bytes)
    (hm : st.mode = .normal) (hinv : Inv consumed st) (st' : LexSt) (i : Nat)
    (h : processToken shape st s = .ok (st', i)) : Inv (consumed ++ s.take i) st' := by
  have hinv0 := hinv
  obtain ⟨raws, pending, htok, hflat, hpos, hmode⟩ := hinv
  rw [hm] at hmode
  have hp : pending = [] := hmode
  subst hp
  simp only [List.append_nil] at hflat
  simp only [processToken, hm] at h
  split at h
  · rename_i hpre
    cases h
    rw [List.isPrefixOf_iff_prefix, List.prefix_iff_eq_take] at hpre
    refine inv_advance _ _ _ raws [45, 45, 91, 91] ?_ ?_ ?_ ?_
    · exact hpos
    · exact htok
    · rw [hflat]; congr 1
    · exact ⟨rfl, by rw [hflat]; exact hpos⟩
  · cases s with
    | nil => exact pt_normalMatch shape hns st [] consumed hm hinv0 st' i h
    | cons b r =>
      dsimp only at h
      by_cases hb : b = 91
      · subst hb
        simp only [if_true] at h
        split at h
        · rename_i h91
          cases h
          have := long_open r h91
          refine inv_advance _ _ _ raws ([91] ++ List.replicate (spanLen (· == 61) r) 61 ++ [91] ++ []) ?_ ?_ ?_ ?_
          · exact hpos
          · exact htok
          · rw [hflat, this]; simp
          · exact ⟨rfl, by rw [hflat]; exact hpos⟩
        · exact pt_normalMatch shape hns st _ consumed hm hinv0 st' i h
      · simp only [hb, if_false] at h
        exact pt_normalMatch shape hns st _ consumed hm hinv0 st' i h

theorem processToken_inv (shape : List Entry) (hns : NoString shape) (st : LexSt) (s consumed : Bytes)
    (hinv : Inv consumed st) (st' : LexSt) (i : Nat) (h : processToken shape st s = .ok (st', i)) :
    Inv (consumed ++ s.take i) st' ∨ (i = s.length ∧ st'.mode ≠ .normal) := by
  cases hm : st.mode with
  | normal => exact Or.inl (pt_normal shape hns st s consumed hm hinv st' i h)
  | inStr q l c acc => exact pt_inStr shape st s consumed q l c acc hm hinv st' i h
  | inComment l c acc => exact Or.inl (pt_inComment shape st s consumed l c acc hm hinv st' i h)
  | inLong d l c acc => exact Or.inl (pt_inLong shape st s consumed d l c acc hm hinv st' i h)

theorem processToken_nil (shape : List Entry) (st st' : LexSt) (i : Nat)
    (h : processToken shape st [] = .ok (st', i)) : i = 0 ∧ st'.mode = st.mode := by
  cases hm : st.mode with
  | normal =>
    simp [processToken, hm, processToken.normalMatch] at h
    obtain ⟨rfl, rfl⟩ := h; exact ⟨rfl, hm⟩
  | inStr q l c acc =>
    simp [processToken, hm, strLoop, advance] at h
    obtain ⟨rfl, rfl⟩ := h; exact ⟨rfl, rfl⟩
  | inComment l c acc =>
    simp [processToken, hm, findSub, advance] at h
    obtain ⟨rfl, rfl⟩ := h; exact ⟨rfl, by simp⟩
  | inLong d l c acc =>
    simp [processToken, hm, findSub, advance] at h
    obtain ⟨rfl, rfl⟩ := h; exact ⟨rfl, by simp⟩

theorem processLine_nil (shape : List Entry) : ∀ (fuel : Nat) (st st' : LexSt),
    processLine shape fuel st [] = .ok st' → st'.mode = st.mode := by
  intro fuel st st' h
  cases fuel with
  | zero => simp [processLine] at h
  | succ fuel =>
    simp only [processLine] at h
    cases hp : processToken shape st [] with
    | error e => simp [hp] at h
    | ok r =>
      obtain ⟨st1, i⟩ := r
      obtain ⟨rfl, hmode⟩ := processToken_nil shape st st1 i hp
      simp [hp] at h
      rw [← h]; exact hmode

theorem processLine_inv (shape : List Entry) (hns : NoString shape) : ∀ (fuel : Nat) (st : LexSt)
    (s consumed : Bytes) (st' : LexSt), Inv consumed st → processLine shape fuel st s = .ok st' →
      Inv (consumed ++ s) st' ∨ st'.mode ≠ .normal := by
  intro fuel
  induction fuel with
  | zero => intro st s consumed st' _ h; simp [processLine] at h
  | succ fuel ih =>
    intro st s consumed st' hinv h
    simp only [processLine] at h
    cases hp : processToken shape st s with
    | error e => simp [hp] at h
    | ok r =>
      obtain ⟨st1, i⟩ := r
      simp only [hp] at h
      have hstep := processToken_inv shape hns st s consumed hinv st1 i hp
      by_cases hi : i = 0
      · subst hi
        simp only [if_true] at h
        split at h
        · rename_i hs
          cases h
          simp only [List.isEmpty_iff] at hs
          subst hs
          rcases hstep with h1 | h1
          · left; simpa using h1
          · right; exact h1.2
        · cases h
      · simp only [hi, if_false] at h
        rcases hstep with h1 | ⟨h1, h2⟩
        · have := ih _ _ _ _ h1 h
          rwa [List.append_assoc, List.take_append_drop] at this
        · right
          rw [h1, List.drop_length] at h
          rw [processLine_nil shape _ _ _ h]; exact h2

theorem cover' (src : Bytes) (toks : List Tok) (h : lex [src] = .ok toks) :
    ∃ raws : List Bytes, raws.length = toks.length ∧ raws.flatten = src ∧
      ∀ i (hi : i < toks.length), RawOf' toks[i] (raws.getD i []) ∧
        (toks[i].line, toks[i].col) = Spec.Lex.posAfter 0 0 (raws.take i).flatten := by
  simp only [lex, processLines, processLinesFrom] at h
  cases hp : processLine Gen.matcherShape (src.length + 2) {} src with
  | error e => simp [hp] at h
  | ok st =>
    simp only [hp] at h
    have hinv0 : Inv [] ({} : LexSt) := ⟨[], [], ⟨rfl, fun i hi => by simp at hi⟩, rfl, rfl, rfl⟩
    have := processLine_inv _ noString_table _ _ _ _ _ hinv0 hp
    cases hm : st.mode with
    | normal =>
      simp only [hm] at h
      cases h
      rcases this with h1 | h1
      · obtain ⟨raws, pending, ⟨hl, htok⟩, hflat, _, hmode⟩ := h1
        rw [hm] at hmode
        have hp : pending = [] := hmode
        subst hp
        refine ⟨raws, by simpa using hl, by simpa using hflat, ?_⟩
        intro i hi
        simp only [Array.length_toList] at hi
        simpa using htok i hi
      · exact absurd hm h1
    | inStr q l c acc => simp [hm] at h
    | inComment l c acc => simp [hm] at h
    | inLong d l c acc => simp [hm] at h

end Pico.C06L
