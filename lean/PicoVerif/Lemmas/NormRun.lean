import PicoVerif.Model.AstWriters
/-! General-purpose lemmas about the stages of the formatter's regex pipeline `normRun` (Model/AstWriters):
unfolding equations in "pattern" form, append/compositionality lemmas, membership lemmas, and the predicates the
stages establish and preserve.  (No Mathlib.) -/
namespace Pico.Ast
open Pico.Lex

/-! ### runs of spaces -/

theorem spanLen_nil' (p : UInt8 → Bool) : spanLen p [] = 0 := rfl

theorem spanLen_cons' (p : UInt8 → Bool) (c : UInt8) (r : Bytes) :
    spanLen p (c :: r) = if p c then spanLen p r + 1 else 0 := by
  unfold spanLen
  by_cases h : p c = true <;> simp [h]

/-- the span of spaces of `<n spaces> ++ r` when `r` does not start with a space -/
theorem spanLen_sp (n : Nat) (r : Bytes) (h : r.head? ≠ some 32) :
    spanLen (· == 32) (List.replicate n 32 ++ r) = n := by
  induction n with
  | zero =>
    cases r with
    | nil => rfl
    | cons c r => simp at h; simp [spanLen_cons', h]
  | succ n ih => simp only [List.replicate_succ, List.cons_append, spanLen_cons']; simp [ih]

theorem drop_sp (n : Nat) (r : Bytes) : (List.replicate n (32 : UInt8) ++ r).drop n = r := by
  rw [List.drop_append_of_le_length (by simp)]; simp

/-- every string is a run of spaces followed by something not starting with a space -/
theorem sp_decomp (s : Bytes) : ∃ n z, s = List.replicate n 32 ++ z ∧ z.head? ≠ some 32 := by
  induction s with
  | nil => exact ⟨0, [], rfl, by simp⟩
  | cons c s ih =>
    by_cases hc : c = 32
    · obtain ⟨n, z, hs, hz⟩ := ih
      exact ⟨n + 1, z, by simp [hc, hs, List.replicate_succ], hz⟩
    · exact ⟨0, c :: s, rfl, by simp [hc]⟩

theorem head_decomp (p : UInt8 → Bool) (s : Bytes) :
    ∃ t z, s = t ++ z ∧ (∀ x ∈ t, p x = true) ∧ (∀ c, z.head? = some c → p c = false) := by
  induction s with
  | nil => exact ⟨[], [], rfl, by simp, by simp⟩
  | cons c s ih =>
    by_cases hc : p c = true
    · obtain ⟨t, z, hs, ht, hz⟩ := ih
      refine ⟨c :: t, z, by simp [hs], ?_, hz⟩
      intro x hx
      simp at hx
      rcases hx with hx | hx
      · exact hx ▸ hc
      · exact ht x hx
    · refine ⟨[], c :: s, rfl, by simp, ?_⟩
      intro c' h'
      simp at h'
      subst h'
      simpa using hc

/-- every string is something not ending in a `p` byte followed by a run of `p` bytes -/
theorem tail_decomp (p : UInt8 → Bool) (s : Bytes) :
    ∃ pre t, s = pre ++ t ∧ (∀ x ∈ t, p x = true) ∧ (∀ c, pre.getLast? = some c → p c = false) := by
  obtain ⟨t, z, hs, ht, hz⟩ := head_decomp p s.reverse
  refine ⟨z.reverse, t.reverse, ?_, by simpa using ht, by simpa using hz⟩
  rw [← List.reverse_append, ← hs, List.reverse_reverse]

/-- the span at the end of `pre ++ t` is `t` when `t` is all `p` and `pre` does not end in `p` -/
theorem spanLen_reverse (p : UInt8 → Bool) (pre t : Bytes) (ht : ∀ x ∈ t, p x = true)
    (hp : ∀ c, pre.getLast? = some c → p c = false) : spanLen p (pre ++ t).reverse = t.length := by
  unfold spanLen
  rw [List.reverse_append, List.takeWhile_append_of_pos (by simpa using ht)]
  have : pre.reverse.takeWhile p = [] := by
    cases h : pre.reverse with
    | nil => rfl
    | cons c r =>
      have : pre.getLast? = some c := by rw [← List.head?_reverse, h]; rfl
      simp [hp c this]
  simp [this]

theorem tail_sp_decomp (s : Bytes) : ∃ pre k, s = pre ++ List.replicate k 32 ∧ pre.getLast? ≠ some 32 := by
  obtain ⟨pre, t, hs, ht, hp⟩ := tail_decomp (· == 32) s
  refine ⟨pre, t.length, ?_, ?_⟩
  · rw [hs]; congr 1
    exact List.eq_replicate_iff.mpr ⟨rfl, fun x hx => by simpa using ht x hx⟩
  · intro h; simpa using hp 32 h

/-! ### `spacesThenDashes` -/

/-- normal form: on `<n spaces> ++ z` with `z` not starting with a space -/
theorem spacesThenDashes_sp (n : Nat) (z : Bytes) (hz : z.head? ≠ some 32) :
    spacesThenDashes (List.replicate n 32 ++ z) = if [45, 45].isPrefixOf z then some n else none := by
  unfold spacesThenDashes
  simp only [spanLen_sp n z hz, drop_sp]

theorem spacesThenDashes_comment (n : Nat) (r : Bytes) :
    spacesThenDashes (List.replicate n 32 ++ 45 :: 45 :: r) = some n := by
  rw [spacesThenDashes_sp n _ (by simp)]; simp

theorem isPrefixOf_dashes (z : Bytes) : [45, 45].isPrefixOf z = true ↔ ∃ r, z = 45 :: 45 :: r := by
  match z with
  | [] => simp
  | [a] => simp [List.isPrefixOf]
  | a :: b :: r =>
    simp only [List.isPrefixOf, Bool.and_true, Bool.and_eq_true, beq_iff_eq]
    constructor
    · rintro ⟨rfl, rfl⟩; exact ⟨r, rfl⟩
    · rintro ⟨r', h⟩; simp at h; exact ⟨h.1.symm, h.2.1.symm⟩

theorem spacesThenDashes_some (s : Bytes) (n : Nat) (h : spacesThenDashes s = some n) :
    ∃ r, s = List.replicate n 32 ++ 45 :: 45 :: r := by
  obtain ⟨m, z, rfl, hz⟩ := sp_decomp s
  rw [spacesThenDashes_sp m z hz] at h
  split at h
  · rename_i hp
    obtain ⟨r, rfl⟩ := (isPrefixOf_dashes z).mp hp
    simp at h; subst h; exact ⟨r, rfl⟩
  · simp at h

theorem spacesThenDashes_none_of_head (s : Bytes) (h : s.head? ≠ some 32) (h' : s.head? ≠ some 45) :
    spacesThenDashes s = none := by
  cases hs : spacesThenDashes s with
  | none => rfl
  | some n =>
    obtain ⟨r, rfl⟩ := spacesThenDashes_some s n hs
    cases n <;> simp [List.replicate_succ] at h h'

/-- what follows the first line feed does not matter -/
theorem spacesThenDashes_append_lf (x t : Bytes) : spacesThenDashes (x ++ 10 :: t) = spacesThenDashes x := by
  obtain ⟨n, z, rfl, hz⟩ := sp_decomp x
  rw [List.append_assoc, spacesThenDashes_sp n z hz]
  match z, hz with
  | [], _ => rw [List.nil_append, spacesThenDashes_sp n _ (by simp)]; simp [List.isPrefixOf]
  | [a], hz =>
    rw [spacesThenDashes_sp n _ (by simpa using hz)]; simp [List.isPrefixOf]
  | a :: b :: r, hz =>
    rw [spacesThenDashes_sp n _ (by simpa using hz)]; simp [List.isPrefixOf]

/-- an appended string without dashes does not matter -/
theorem spacesThenDashes_append_nodash (x t : Bytes) (ht : (45 : UInt8) ∉ t) :
    spacesThenDashes (x ++ t) = spacesThenDashes x := by
  obtain ⟨n, z, rfl, hz⟩ := sp_decomp x
  rw [List.append_assoc, spacesThenDashes_sp n z hz]
  match z, hz with
  | [], _ =>
    obtain ⟨m, z', rfl, hz'⟩ := sp_decomp t
    rw [List.nil_append, ← List.append_assoc, List.replicate_append_replicate, spacesThenDashes_sp _ z' hz']
    have : [45, 45].isPrefixOf z' = false := by
      cases hp : [45, 45].isPrefixOf z' with
      | false => rfl
      | true => obtain ⟨r, rfl⟩ := (isPrefixOf_dashes z').mp hp; simp at ht
    simp [this, List.isPrefixOf]
  | [a], hz =>
    rw [spacesThenDashes_sp n _ (by simpa using hz)]
    cases t with
    | nil => simp
    | cons b t =>
      have : b ≠ 45 := fun h => ht (by simp [h])
      simp [List.isPrefixOf]; intro _ h; exact absurd h.symm this
  | a :: b :: r, hz =>
    rw [spacesThenDashes_sp n _ (by simpa using hz)]; simp [List.isPrefixOf]

/-! ### `spacesThenComment`: the alternation `(--|//)` -/

/-- the comment markers of the alternation `(--|//)` are `[c, c]` for these two bytes -/
def Mk (c : UInt8) : Prop := c = 45 ∨ c = 47

theorem Mk.ne32 {c : UInt8} (h : Mk c) : c ≠ 32 := by rcases h with rfl | rfl <;> decide
theorem Mk.ne10 {c : UInt8} (h : Mk c) : c ≠ 10 := by rcases h with rfl | rfl <;> decide
theorem Mk.ne13 {c : UInt8} (h : Mk c) : c ≠ 13 := by rcases h with rfl | rfl <;> decide
theorem Mk.ne9 {c : UInt8} (h : Mk c) : c ≠ 9 := by rcases h with rfl | rfl <;> decide

/-- contains neither `-` nor `/` -/
def NoMark (t : Bytes) : Prop := (45 : UInt8) ∉ t ∧ (47 : UInt8) ∉ t

theorem NoMark.not_mem {t : Bytes} (h : NoMark t) {c : UInt8} (hc : Mk c) : c ∉ t := by
  rcases hc with rfl | rfl
  · exact h.1
  · exact h.2

theorem isPrefixOf_slashes (z : Bytes) : [47, 47].isPrefixOf z = true ↔ ∃ r, z = 47 :: 47 :: r := by
  match z with
  | [] => simp
  | [a] => simp [List.isPrefixOf]
  | a :: b :: r =>
    simp only [List.isPrefixOf, Bool.and_true, Bool.and_eq_true, beq_iff_eq]
    constructor
    · rintro ⟨rfl, rfl⟩; exact ⟨r, rfl⟩
    · rintro ⟨r', h⟩; simp at h; exact ⟨h.1.symm, h.2.1.symm⟩

/-- normal form: on `<n spaces> ++ z` with `z` not starting with a space -/
theorem spacesThenComment_sp (n : Nat) (z : Bytes) (hz : z.head? ≠ some 32) :
    spacesThenComment (List.replicate n 32 ++ z) =
      if [45, 45].isPrefixOf z then some (n, [45, 45]) else if [47, 47].isPrefixOf z then some (n, [47, 47]) else none := by
  unfold spacesThenComment
  simp only [spanLen_sp n z hz, drop_sp]

theorem spacesThenComment_comment (n : Nat) (c : UInt8) (r : Bytes) (hc : Mk c) :
    spacesThenComment (List.replicate n 32 ++ c :: c :: r) = some (n, [c, c]) := by
  rcases hc with rfl | rfl
  · rw [spacesThenComment_sp n _ (by simp)]; simp
  · rw [spacesThenComment_sp n _ (by simp)]; simp [List.isPrefixOf]

theorem spacesThenComment_some (s : Bytes) (n : Nat) (m : Bytes) (h : spacesThenComment s = some (n, m)) :
    ∃ c r, Mk c ∧ m = [c, c] ∧ s = List.replicate n 32 ++ c :: c :: r := by
  obtain ⟨k, z, rfl, hz⟩ := sp_decomp s
  rw [spacesThenComment_sp k z hz] at h
  split at h
  · rename_i hp
    obtain ⟨r, rfl⟩ := (isPrefixOf_dashes z).mp hp
    simp at h; obtain ⟨rfl, rfl⟩ := h; exact ⟨45, r, Or.inl rfl, rfl, rfl⟩
  · split at h
    · rename_i hp
      obtain ⟨r, rfl⟩ := (isPrefixOf_slashes z).mp hp
      simp at h; obtain ⟨rfl, rfl⟩ := h; exact ⟨47, r, Or.inr rfl, rfl, rfl⟩
    · simp at h

theorem spacesThenComment_nil : spacesThenComment [] = none := by
  have := spacesThenComment_sp 0 [] (by simp)
  simpa using this

/-- what follows the first line feed does not matter -/
theorem spacesThenComment_append_lf (x t : Bytes) : spacesThenComment (x ++ 10 :: t) = spacesThenComment x := by
  obtain ⟨n, z, rfl, hz⟩ := sp_decomp x
  rw [List.append_assoc, spacesThenComment_sp n z hz]
  match z, hz with
  | [], _ => rw [List.nil_append, spacesThenComment_sp n _ (by simp)]; simp [List.isPrefixOf]
  | [a], hz =>
    rw [spacesThenComment_sp n _ (by simpa using hz)]; simp [List.isPrefixOf]
  | a :: b :: r, hz =>
    rw [spacesThenComment_sp n _ (by simpa using hz)]; simp [List.isPrefixOf]

/-- an appended string without `-` and `/` does not matter -/
theorem spacesThenComment_append_nomark (x t : Bytes) (ht : NoMark t) :
    spacesThenComment (x ++ t) = spacesThenComment x := by
  obtain ⟨n, z, rfl, hz⟩ := sp_decomp x
  rw [List.append_assoc, spacesThenComment_sp n z hz]
  match z, hz with
  | [], _ =>
    obtain ⟨m, z', rfl, hz'⟩ := sp_decomp t
    rw [List.nil_append, ← List.append_assoc, List.replicate_append_replicate, spacesThenComment_sp _ z' hz']
    have h1 : [45, 45].isPrefixOf z' = false := by
      cases hp : [45, 45].isPrefixOf z' with
      | false => rfl
      | true => obtain ⟨r, rfl⟩ := (isPrefixOf_dashes z').mp hp; exact absurd (by simp) ht.1
    have h2 : [47, 47].isPrefixOf z' = false := by
      cases hp : [47, 47].isPrefixOf z' with
      | false => rfl
      | true => obtain ⟨r, rfl⟩ := (isPrefixOf_slashes z').mp hp; exact absurd (by simp) ht.2
    simp [h1, h2, List.isPrefixOf]
  | [a], hz =>
    rw [spacesThenComment_sp n _ (by simpa using hz)]
    cases t with
    | nil => simp
    | cons b t =>
      have h45 : b ≠ 45 := fun h => ht.1 (by simp [h])
      have h47 : b ≠ 47 := fun h => ht.2 (by simp [h])
      have h45' : ((45 : UInt8) == b) = false := by simpa using Ne.symm h45
      have h47' : ((47 : UInt8) == b) = false := by simpa using Ne.symm h47
      simp [List.isPrefixOf, h45', h47']
  | a :: b :: r, hz =>
    rw [spacesThenComment_sp n _ (by simpa using hz)]; simp [List.isPrefixOf]

theorem spacesThenComment_none_dashes (s : Bytes) (h : spacesThenComment s = none) : spacesThenDashes s = none := by
  cases hd : spacesThenDashes s with
  | none => rfl
  | some n =>
    obtain ⟨r, rfl⟩ := spacesThenDashes_some s n hd
    rw [spacesThenComment_comment n 45 r (Or.inl rfl)] at h; simp at h

/-- induction over a string cut into `<spaces> <non-space byte>` pieces -/
theorem sp_induction {motive : Bytes → Prop} (nil : ∀ n, motive (List.replicate n 32))
    (cons : ∀ n c z, c ≠ 32 → motive z → motive (List.replicate n 32 ++ c :: z)) : ∀ s, motive s := by
  intro s
  induction h : s.length using Nat.strongRecOn generalizing s with
  | _ len ih =>
    obtain ⟨n, z, rfl, hz⟩ := sp_decomp s
    cases z with
    | nil => simpa using nil n
    | cons c z =>
      refine cons n c z (by simpa using hz) (ih z.length ?_ z rfl)
      subst h; simp; omega

theorem getLast?_append_cons (x : Bytes) (c : UInt8) (z : Bytes) :
    (x ++ c :: z).getLast? = some (z.getLast?.getD c) := by
  simp [List.getLast?_cons]

/-! ### `dropSpacesBeforeLF` -/

theorem dsl_nil : dropSpacesBeforeLF [] = [] := by rw [dropSpacesBeforeLF]

theorem dsl_cons_ne (b : UInt8) (r : Bytes) (h : b ≠ 32) :
    dropSpacesBeforeLF (b :: r) = b :: dropSpacesBeforeLF r := by
  rw [dropSpacesBeforeLF]; simp [h]

/-- spaces in front of a line feed are dropped -/
theorem dsl_sp_lf (n : Nat) (r : Bytes) :
    dropSpacesBeforeLF (List.replicate n 32 ++ 10 :: r) = 10 :: dropSpacesBeforeLF r := by
  cases n with
  | zero => simpa using dsl_cons_ne 10 r (by decide)
  | succ n =>
    rw [List.replicate_succ, List.cons_append, dropSpacesBeforeLF]
    simp only [if_true, spanLen_sp n (10 :: r) (by simp), drop_sp, List.head?_cons]
    exact dsl_cons_ne 10 r (by decide)

/-- spaces in front of anything else are kept -/
theorem dsl_sp_other (n : Nat) (r : Bytes) (h10 : r.head? ≠ some 10) (h32 : r.head? ≠ some 32) :
    dropSpacesBeforeLF (List.replicate n 32 ++ r) = List.replicate n 32 ++ dropSpacesBeforeLF r := by
  induction n with
  | zero => simp
  | succ n ih =>
    rw [List.replicate_succ, List.cons_append, dropSpacesBeforeLF]
    simp only [if_true, spanLen_sp n r h32, drop_sp, h10, if_false, ih, List.cons_append]

theorem dsl_sp (n : Nat) : dropSpacesBeforeLF (List.replicate n 32) = List.replicate n 32 := by
  simpa [dsl_nil] using dsl_sp_other n [] (by simp) (by simp)

theorem dsl_sp_cons (n : Nat) (c : UInt8) (r : Bytes) (h10 : c ≠ 10) (h32 : c ≠ 32) :
    dropSpacesBeforeLF (List.replicate n 32 ++ c :: r) = List.replicate n 32 ++ c :: dropSpacesBeforeLF r := by
  rw [dsl_sp_other n _ (by simpa using h10) (by simpa using h32), dsl_cons_ne c r h32]

/-- compositional at a point not preceded by a space -/
theorem dsl_append (a c : Bytes) (h : a.getLast? ≠ some 32) :
    dropSpacesBeforeLF (a ++ c) = dropSpacesBeforeLF a ++ dropSpacesBeforeLF c := by
  induction a using sp_induction with
  | nil n =>
    cases n with
    | zero => simp [dsl_nil]
    | succ n => simp [List.getLast?_replicate] at h
  | cons n b z hb ih =>
    have hz : z.getLast? ≠ some 32 := by
      intro h'; apply h; rw [getLast?_append_cons, h']; rfl
    rw [List.append_assoc, List.cons_append]
    by_cases h10 : b = 10
    · subst h10; rw [dsl_sp_lf, dsl_sp_lf, ih hz]; rfl
    · rw [dsl_sp_cons n b _ h10 hb, dsl_sp_cons n b _ h10 hb, ih hz]; simp

theorem dsl_getLast? (a : Bytes) : (dropSpacesBeforeLF a).getLast? = a.getLast? := by
  induction a using sp_induction with
  | nil n => rw [dsl_sp]
  | cons n b z hb ih =>
    by_cases h10 : b = 10
    · subst h10; rw [dsl_sp_lf, getLast?_append_cons, List.getLast?_cons, ih]
    · rw [dsl_sp_cons n b _ h10 hb, getLast?_append_cons, getLast?_append_cons, ih]

theorem mem_dsl (a : Bytes) (x : UInt8) (h : x ∈ dropSpacesBeforeLF a) : x ∈ a := by
  induction a using sp_induction with
  | nil n => rwa [dsl_sp] at h
  | cons n b z hb ih =>
    by_cases h10 : b = 10
    · subst h10; rw [dsl_sp_lf] at h
      simp at h ⊢; rcases h with h | h
      · exact Or.inr (Or.inl h)
      · exact Or.inr (Or.inr (ih h))
    · rw [dsl_sp_cons n b _ h10 hb] at h
      simp at h ⊢; rcases h with h | h | h
      · exact Or.inl h
      · exact Or.inr (Or.inl h)
      · exact Or.inr (Or.inr (ih h))

/-- `dropSpacesBeforeLF (x ++ <spaces> ++ LF :: y)` does not depend on the spaces -/
theorem dsl_spaces_lf (x : Bytes) (j : Nat) (y : Bytes) :
    dropSpacesBeforeLF (x ++ List.replicate j 32 ++ 10 :: y) = dropSpacesBeforeLF (x ++ 10 :: y) := by
  obtain ⟨pre, k, rfl, hp⟩ := tail_sp_decomp x
  have e1 : pre ++ List.replicate k 32 ++ List.replicate j 32 ++ 10 :: y = pre ++ (List.replicate (k + j) 32 ++ 10 :: y) := by
    simp [← List.replicate_append_replicate]
  rw [e1, List.append_assoc, dsl_append _ _ hp, dsl_append _ _ hp, dsl_sp_lf, dsl_sp_lf]

/-! ### no space in front of a line feed -/

/-- no space is directly followed by a line feed -/
def NoSpLF : Bytes → Prop
  | [] => True
  | b :: r => (b = 32 → r.head? ≠ some 10) ∧ NoSpLF r

@[simp] theorem NoSpLF_nil : NoSpLF [] := trivial
theorem NoSpLF_cons (b : UInt8) (r : Bytes) : NoSpLF (b :: r) ↔ (b = 32 → r.head? ≠ some 10) ∧ NoSpLF r := Iff.rfl

theorem NoSpLF_append (a b : Bytes) :
    NoSpLF (a ++ b) ↔ NoSpLF a ∧ NoSpLF b ∧ ¬ (a.getLast? = some 32 ∧ b.head? = some 10) := by
  induction a with
  | nil => simp
  | cons c a ih =>
    rw [List.cons_append, NoSpLF_cons, NoSpLF_cons, ih]
    cases a with
    | nil => simp; grind
    | cons c' a => simp [List.getLast?_cons_cons]; grind

theorem NoSpLF_sp (n : Nat) : NoSpLF (List.replicate n 32) := by
  induction n with
  | zero => trivial
  | succ n ih => rw [List.replicate_succ, NoSpLF_cons]; exact ⟨by cases n <;> simp [List.replicate_succ], ih⟩

theorem NoSpLF_index (s : Bytes) (h : NoSpLF s) (i : Nat) (h1 : s[i + 1]? = some 10) : s[i]? ≠ some 32 := by
  induction s generalizing i with
  | nil => simp
  | cons c s ih =>
    cases i with
    | zero =>
      simp at h1 ⊢; intro hc
      have := h.1 hc
      cases s <;> simp_all
    | succ i => simpa using ih h.2 i (by simpa using h1)

theorem NoSpLF_dsl (a : Bytes) : NoSpLF (dropSpacesBeforeLF a) := by
  induction a using sp_induction with
  | nil n => rw [dsl_sp]; exact NoSpLF_sp n
  | cons n b z hb ih =>
    by_cases h10 : b = 10
    · subst h10; rw [dsl_sp_lf]; exact ⟨by simp, ih⟩
    · rw [dsl_sp_cons n b _ h10 hb, NoSpLF_append]
      refine ⟨NoSpLF_sp n, ⟨by simp [hb], ih⟩, ?_⟩
      simp [h10]

theorem dsl_of_NoSpLF (a : Bytes) (h : NoSpLF a) : dropSpacesBeforeLF a = a := by
  induction a using sp_induction with
  | nil n => rw [dsl_sp]
  | cons n b z hb ih =>
    rw [NoSpLF_append] at h
    by_cases h10 : b = 10
    · subst h10
      cases n with
      | zero => simp; rw [dsl_cons_ne _ _ (by decide), ih h.2.1.2]
      | succ n => exact absurd ⟨by simp [List.getLast?_replicate], by simp⟩ h.2.2
    · rw [dsl_sp_cons n b _ h10 hb, ih h.2.1.2]

/-! ### tabs and carriage returns -/

theorem subTab_append (x y : Bytes) : subTab (x ++ y) = subTab x ++ subTab y := by simp [subTab]
theorem subCR_append (x y : Bytes) : subCR (x ++ y) = subCR x ++ subCR y := by simp [subCR]
theorem subTab_cons (b : UInt8) (r : Bytes) : subTab (b :: r) = (if b = 9 then 32 else b) :: subTab r := by simp [subTab]
theorem subCR_cons (b : UInt8) (r : Bytes) : subCR (b :: r) = (if b = 13 then 10 else b) :: subCR r := by simp [subCR]
@[simp] theorem subTab_nil : subTab [] = [] := rfl
@[simp] theorem subCR_nil : subCR [] = [] := rfl

theorem not_tab_subTab (s : Bytes) : (9 : UInt8) ∉ subTab s := by
  simp only [subTab, List.mem_map, not_exists, not_and]
  intro x _; split <;> simp_all

theorem not_cr_subCR (s : Bytes) : (13 : UInt8) ∉ subCR s := by
  simp only [subCR, List.mem_map, not_exists, not_and]
  intro x _; split <;> simp_all

theorem subTab_id (s : Bytes) (h : (9 : UInt8) ∉ s) : subTab s = s := by
  induction s with
  | nil => rfl
  | cons c s ih => simp at h; rw [subTab_cons, ih h.2, if_neg (Ne.symm h.1)]

theorem subCR_id (s : Bytes) (h : (13 : UInt8) ∉ s) : subCR s = s := by
  induction s with
  | nil => rfl
  | cons c s ih => simp at h; rw [subCR_cons, ih h.2, if_neg (Ne.symm h.1)]

theorem mem_subTab (s : Bytes) (x : UInt8) (h : x ∈ subTab s) : x ∈ s ∨ x = 32 := by
  simp only [subTab, List.mem_map] at h
  obtain ⟨a, ha, rfl⟩ := h
  split
  · exact Or.inr rfl
  · exact Or.inl ha

theorem mem_subCR (s : Bytes) (x : UInt8) (h : x ∈ subCR s) : x ∈ s ∨ x = 10 := by
  simp only [subCR, List.mem_map] at h
  obtain ⟨a, ha, rfl⟩ := h
  split
  · exact Or.inr rfl
  · exact Or.inl ha

/-- spaces and tabs become spaces -/
theorem subTab_ws (ws : Bytes) (h : ws.all (fun c => c == 32 || c == 9) = true) :
    subTab ws = List.replicate ws.length 32 := by
  induction ws with
  | nil => rfl
  | cons c ws ih =>
    simp only [List.all_cons, Bool.and_eq_true, Bool.or_eq_true, beq_iff_eq] at h
    rw [subTab_cons, ih h.2, List.length_cons, List.replicate_succ]
    rcases h.1 with h1 | h1 <;> simp [h1]

@[simp] theorem subCRLF_nil : subCRLF [] = [] := by rw [subCRLF]
@[simp] theorem subLFCR_nil : subLFCR [] = [] := by rw [subLFCR]

theorem subCRLF_crlf (r : Bytes) : subCRLF (13 :: 10 :: r) = 10 :: subCRLF r := subCRLF.eq_1 r
theorem subLFCR_lfcr (r : Bytes) : subLFCR (10 :: 13 :: r) = 10 :: subLFCR r := subLFCR.eq_1 r

theorem subCRLF_cons (b : UInt8) (r : Bytes) (h : b = 13 → r.head? ≠ some 10) :
    subCRLF (b :: r) = b :: subCRLF r := by
  apply subCRLF.eq_2; intro r' hb hr; subst hb hr; simp at h

theorem subLFCR_cons (b : UInt8) (r : Bytes) (h : b = 10 → r.head? ≠ some 13) :
    subLFCR (b :: r) = b :: subLFCR r := by
  apply subLFCR.eq_2; intro r' hb hr; subst hb hr; simp at h

theorem subCRLF_cons_ne (b : UInt8) (r : Bytes) (h : b ≠ 13) : subCRLF (b :: r) = b :: subCRLF r :=
  subCRLF_cons b r (fun hb => absurd hb h)

theorem subLFCR_cons_ne (b : UInt8) (r : Bytes) (h : b ≠ 10) : subLFCR (b :: r) = b :: subLFCR r :=
  subLFCR_cons b r (fun hb => absurd hb h)

theorem subCRLF_append (x y : Bytes) (h : x.getLast? = some 13 → y.head? ≠ some 10) :
    subCRLF (x ++ y) = subCRLF x ++ subCRLF y := by
  induction x using subCRLF.induct with
  | case1 rest ih =>
    rw [List.cons_append, List.cons_append, subCRLF_crlf, subCRLF_crlf, ih, List.cons_append]
    intro hr; apply h; simp [List.getLast?_cons, hr]
  | case2 b rest hb ih =>
    have h1 : b = 13 → rest.head? ≠ some 10 := by
      intro hb' hr; cases rest with
      | nil => simp at hr
      | cons c r => simp at hr; exact hb r hb' (by rw [hr])
    rw [List.cons_append, subCRLF_cons b rest h1, subCRLF_cons, ih, List.cons_append]
    · intro hr; apply h
      cases rest with
      | nil => simp at hr
      | cons c r => rw [List.getLast?_cons_cons]; exact hr
    · intro hb'
      cases rest with
      | nil => simpa using h (by simp [hb'])
      | cons c r => simpa using h1 hb'
  | case3 => simp

theorem subLFCR_append (x y : Bytes) (h : x.getLast? = some 10 → y.head? ≠ some 13) :
    subLFCR (x ++ y) = subLFCR x ++ subLFCR y := by
  induction x using subLFCR.induct with
  | case1 rest ih =>
    rw [List.cons_append, List.cons_append, subLFCR_lfcr, subLFCR_lfcr, ih, List.cons_append]
    intro hr; apply h; simp [List.getLast?_cons, hr]
  | case2 b rest hb ih =>
    have h1 : b = 10 → rest.head? ≠ some 13 := by
      intro hb' hr; cases rest with
      | nil => simp at hr
      | cons c r => simp at hr; exact hb r hb' (by rw [hr])
    rw [List.cons_append, subLFCR_cons b rest h1, subLFCR_cons, ih, List.cons_append]
    · intro hr; apply h
      cases rest with
      | nil => simp at hr
      | cons c r => rw [List.getLast?_cons_cons]; exact hr
    · intro hb'
      cases rest with
      | nil => simpa using h (by simp [hb'])
      | cons c r => simpa using h1 hb'
  | case3 => simp

theorem mem_subCRLF (s : Bytes) (x : UInt8) (h : x ∈ subCRLF s) : x ∈ s := by
  induction s using subCRLF.induct with
  | case1 rest ih => rw [subCRLF_crlf] at h; simp at h ⊢; rcases h with h | h; exact Or.inr (Or.inl h); exact Or.inr (Or.inr (ih h))
  | case2 b rest hb ih =>
    rw [subCRLF.eq_2 b rest hb] at h; simp at h ⊢; rcases h with h | h; exact Or.inl h; exact Or.inr (ih h)
  | case3 => simp at h

theorem mem_subLFCR (s : Bytes) (x : UInt8) (h : x ∈ subLFCR s) : x ∈ s := by
  induction s using subLFCR.induct with
  | case1 rest ih => rw [subLFCR_lfcr] at h; simp at h ⊢; rcases h with h | h; exact Or.inl h; exact Or.inr (Or.inr (ih h))
  | case2 b rest hb ih =>
    rw [subLFCR.eq_2 b rest hb] at h; simp at h ⊢; rcases h with h | h; exact Or.inl h; exact Or.inr (ih h)
  | case3 => simp at h

theorem subCRLF_id (s : Bytes) (h : (13 : UInt8) ∉ s) : subCRLF s = s := by
  induction s with
  | nil => simp
  | cons c s ih => simp at h; rw [subCRLF_cons c s (fun hc => absurd hc.symm h.1), ih h.2]

theorem subLFCR_id (s : Bytes) (h : (13 : UInt8) ∉ s) : subLFCR s = s := by
  induction s with
  | nil => simp
  | cons c s ih =>
    simp at h; rw [subLFCR_cons c s, ih h.2]
    intro _ hs; cases s with
    | nil => simp at hs
    | cons d s => simp at hs h; exact h.2.1 hs.symm

theorem subCRLF_getLast? (s : Bytes) : (subCRLF s).getLast? = s.getLast? := by
  induction s using subCRLF.induct with
  | case1 rest ih => rw [subCRLF_crlf, List.getLast?_cons, ih, List.getLast?_cons_cons, List.getLast?_cons]
  | case2 b rest hb ih => rw [subCRLF.eq_2 b rest hb, List.getLast?_cons, ih, List.getLast?_cons]
  | case3 => simp

theorem subLFCR_getLast?_lf (s : Bytes) (h : s.getLast? = some 10) : (subLFCR s).getLast? = some 10 := by
  induction s using subLFCR.induct with
  | case1 rest ih =>
    rw [subLFCR_lfcr, List.getLast?_cons]
    cases rest with
    | nil => simp at h
    | cons c r => rw [ih (by simpa [List.getLast?_cons_cons] using h)]; rfl
  | case2 b rest hb ih =>
    rw [subLFCR.eq_2 b rest hb, List.getLast?_cons]
    cases rest with
    | nil => simp at h; simp [h]
    | cons c r => rw [ih (by simpa [List.getLast?_cons_cons] using h)]; rfl
  | case3 => simp at h

/-- the three line-break rewrites after the tab rewrite -/
def normBreaks (s : Bytes) : Bytes := subCR (subLFCR (subCRLF (subTab s)))

/-! ### `subStartComment` -/

theorem drop_comment (n : Nat) (a b : UInt8) (r : Bytes) : (List.replicate n (32 : UInt8) ++ a :: b :: r).drop (n + 2) = r := by
  induction n with
  | zero => rfl
  | succ n ih => simpa [List.replicate_succ] using ih

theorem subStartComment_comment (repl : Bytes) (n : Nat) (r : Bytes) :
    subStartComment repl (List.replicate n 32 ++ 45 :: 45 :: r) = repl ++ r := by
  unfold subStartComment
  rw [spacesThenDashes_comment]
  simp only [drop_comment]

theorem subStartComment_none (repl s : Bytes) (h : spacesThenDashes s = none) : subStartComment repl s = s := by
  unfold subStartComment; rw [h]

theorem subStartComment_cases (repl s : Bytes) :
    (spacesThenDashes s = none ∧ subStartComment repl s = s) ∨
    ∃ n r, s = List.replicate n 32 ++ 45 :: 45 :: r ∧ subStartComment repl s = repl ++ r := by
  cases h : spacesThenDashes s with
  | none => exact Or.inl ⟨rfl, subStartComment_none repl s h⟩
  | some n =>
    obtain ⟨r, rfl⟩ := spacesThenDashes_some s n h
    exact Or.inr ⟨n, r, rfl, subStartComment_comment repl n r⟩

/-- only the first line is rewritten -/
theorem subStartComment_append_lf (repl x t : Bytes) :
    subStartComment repl (x ++ 10 :: t) = subStartComment repl x ++ 10 :: t := by
  rcases subStartComment_cases repl x with ⟨h, e⟩ | ⟨n, r, rfl, e⟩
  · rw [e, subStartComment_none]; rw [spacesThenDashes_append_lf, h]
  · rw [e]; simp only [List.append_assoc, List.cons_append]; rw [subStartComment_comment]

theorem mem_subStartComment (repl s : Bytes) (x : UInt8) (h : x ∈ subStartComment repl s) : x ∈ s ∨ x ∈ repl := by
  rcases subStartComment_cases repl s with ⟨_, e⟩ | ⟨n, r, rfl, e⟩
  · rw [e] at h; exact Or.inl h
  · rw [e] at h; simp at h ⊢; rcases h with h | h
    · exact Or.inr h
    · exact Or.inl (Or.inr (Or.inr h))

theorem spacesThenDashes_subStartComment (k : Nat) (s : Bytes) :
    spacesThenDashes (subStartComment (List.replicate k 32 ++ [45, 45]) s) = (spacesThenDashes s).map (fun _ => k) := by
  rcases subStartComment_cases (List.replicate k 32 ++ [45, 45]) s with ⟨h, e⟩ | ⟨n, r, rfl, e⟩
  · rw [e, h]; rfl
  · rw [e, spacesThenDashes_comment]; simp [spacesThenDashes_comment]

theorem NoSpLF_sp_append (n : Nat) (x : Bytes) (h : x.head? ≠ some 10) : NoSpLF (List.replicate n 32 ++ x) ↔ NoSpLF x := by
  rw [NoSpLF_append]
  simp [NoSpLF_sp, h]

theorem NoSpLF_subStartComment (k : Nat) (s : Bytes) (h : NoSpLF s) :
    NoSpLF (subStartComment (List.replicate k 32 ++ [45, 45]) s) := by
  rcases subStartComment_cases (List.replicate k 32 ++ [45, 45]) s with ⟨_, e⟩ | ⟨n, r, rfl, e⟩
  · rwa [e]
  · rw [e]
    rw [NoSpLF_sp_append _ _ (by simp)] at h
    simp only [List.append_assoc, List.cons_append, List.nil_append]
    rw [NoSpLF_sp_append _ _ (by simp)]
    exact h

/-! ### `subStartAnyComment` -/

theorem subStartAnyComment_comment (n : Nat) (c : UInt8) (r : Bytes) (hc : Mk c) :
    subStartAnyComment (List.replicate n 32 ++ c :: c :: r) = c :: c :: r := by
  unfold subStartAnyComment
  rw [spacesThenComment_comment n c r hc]
  simp only [drop_sp]

theorem subStartAnyComment_none (s : Bytes) (h : spacesThenComment s = none) : subStartAnyComment s = s := by
  unfold subStartAnyComment; rw [h]

theorem subStartAnyComment_cases (s : Bytes) :
    (spacesThenComment s = none ∧ subStartAnyComment s = s) ∨
    ∃ n c r, Mk c ∧ s = List.replicate n 32 ++ c :: c :: r ∧ subStartAnyComment s = c :: c :: r := by
  cases h : spacesThenComment s with
  | none => exact Or.inl ⟨rfl, subStartAnyComment_none s h⟩
  | some p =>
    obtain ⟨n, m⟩ := p
    obtain ⟨c, r, hc, _, rfl⟩ := spacesThenComment_some s n m h
    exact Or.inr ⟨n, c, r, hc, rfl, subStartAnyComment_comment n c r hc⟩

/-- only the first line is rewritten -/
theorem subStartAnyComment_append_lf (x t : Bytes) :
    subStartAnyComment (x ++ 10 :: t) = subStartAnyComment x ++ 10 :: t := by
  rcases subStartAnyComment_cases x with ⟨h, e⟩ | ⟨n, c, r, hc, rfl, e⟩
  · rw [e, subStartAnyComment_none]; rw [spacesThenComment_append_lf, h]
  · rw [e]; simp only [List.append_assoc, List.cons_append]; rw [subStartAnyComment_comment _ _ _ hc]

theorem mem_subStartAnyComment (s : Bytes) (x : UInt8) (h : x ∈ subStartAnyComment s) : x ∈ s := by
  rcases subStartAnyComment_cases s with ⟨_, e⟩ | ⟨n, c, r, _, rfl, e⟩
  · rwa [e] at h
  · rw [e] at h; exact List.mem_append_right _ h

theorem spacesThenComment_subStartAnyComment (s : Bytes) :
    spacesThenComment (subStartAnyComment s) = (spacesThenComment s).map (fun p => (0, p.2)) := by
  rcases subStartAnyComment_cases s with ⟨h, e⟩ | ⟨n, c, r, hc, rfl, e⟩
  · rw [e, h]; rfl
  · have := spacesThenComment_comment 0 c r hc
    simp only [List.replicate_zero, List.nil_append] at this
    rw [e, this, spacesThenComment_comment n c r hc]; rfl

theorem NoSpLF_subStartAnyComment (s : Bytes) (h : NoSpLF s) : NoSpLF (subStartAnyComment s) := by
  rcases subStartAnyComment_cases s with ⟨_, e⟩ | ⟨n, c, r, hc, rfl, e⟩
  · rwa [e]
  · rw [e]
    rwa [NoSpLF_sp_append _ _ (by simp [hc.ne10])] at h

/-! ### `subLineComment` -/

@[simp] theorem slc_nil (ind : Bytes) : subLineComment ind [] = [] := by rw [subLineComment]

theorem slc_cons_ne (ind : Bytes) (b : UInt8) (r : Bytes) (h : b ≠ 10) :
    subLineComment ind (b :: r) = b :: subLineComment ind r := by
  rw [subLineComment]; simp [h]

theorem slc_lf_none (ind r : Bytes) (h : spacesThenComment r = none) :
    subLineComment ind (10 :: r) = 10 :: subLineComment ind r := by
  rw [subLineComment]; simp [h]

theorem slc_lf_comment (ind : Bytes) (n : Nat) (c : UInt8) (r : Bytes) (hc : Mk c) :
    subLineComment ind (10 :: (List.replicate n 32 ++ c :: c :: r)) = 10 :: (ind ++ c :: c :: subLineComment ind r) := by
  rw [subLineComment]
  simp only [if_true, spacesThenComment_comment n c r hc, drop_comment]
  simp

theorem slc_induction {motive : Bytes → Prop} (nil : motive [])
    (other : ∀ b r, b ≠ 10 → motive r → motive (b :: r))
    (comment : ∀ n c r, Mk c → motive r → motive (10 :: (List.replicate n 32 ++ c :: c :: r)))
    (lf : ∀ r, spacesThenComment r = none → motive r → motive (10 :: r)) : ∀ s, motive s := by
  intro s
  induction s using subLineComment.induct with
  | case1 => exact nil
  | case2 rest n m h ih =>
    obtain ⟨c, r, hc, _, rfl⟩ := spacesThenComment_some rest n m h
    rw [drop_comment] at ih
    exact comment n c r hc ih
  | case3 rest h ih => exact lf rest h ih
  | case4 b rest hb ih => exact other b rest hb ih

theorem slc_no_lf (ind s : Bytes) (h : (10 : UInt8) ∉ s) : subLineComment ind s = s := by
  induction s with
  | nil => simp
  | cons c s ih => simp at h; rw [slc_cons_ne ind c s (Ne.symm h.1), ih h.2]

theorem slc_lf_sp (ind : Bytes) (k : Nat) :
    subLineComment ind (10 :: List.replicate k 32) = 10 :: List.replicate k 32 := by
  rw [slc_lf_none, slc_no_lf]
  · simp
  · have := spacesThenComment_sp k [] (by simp); simpa using this

/-- compositional in front of a line feed -/
theorem slc_append_lf (ind a t : Bytes) :
    subLineComment ind (a ++ 10 :: t) = subLineComment ind a ++ subLineComment ind (10 :: t) := by
  induction a using slc_induction with
  | nil => simp
  | other b r hb ih => rw [List.cons_append, slc_cons_ne _ _ _ hb, slc_cons_ne _ _ _ hb, ih, List.cons_append]
  | comment n c r hc ih =>
    rw [List.cons_append, List.append_assoc, List.cons_append, List.cons_append, slc_lf_comment _ _ _ _ hc,
      slc_lf_comment _ _ _ _ hc, ih]
    simp
  | lf r h ih =>
    rw [List.cons_append, slc_lf_none _ _ h, slc_lf_none, ih, List.cons_append]
    rw [spacesThenComment_append_lf, h]

theorem slc_lf_head (ind t : Bytes) : ∃ t', subLineComment ind (10 :: t) = 10 :: t' := by
  cases h : spacesThenComment t with
  | none => exact ⟨_, slc_lf_none ind t h⟩
  | some p =>
    obtain ⟨n, m⟩ := p
    obtain ⟨c, r, hc, _, rfl⟩ := spacesThenComment_some t n m h; exact ⟨_, slc_lf_comment ind n c r hc⟩

/-- the first line is not rewritten -/
theorem spacesThenDashes_slc (ind s : Bytes) : spacesThenDashes (subLineComment ind s) = spacesThenDashes s := by
  obtain ⟨t, z, rfl, ht, hz⟩ := head_decomp (· != 10) s
  have ht' : (10 : UInt8) ∉ t := fun h => by simpa using ht 10 h
  cases z with
  | nil => rw [List.append_nil, slc_no_lf _ _ ht']
  | cons c z =>
    have : c = 10 := by simpa using hz c rfl
    subst this
    obtain ⟨t', e⟩ := slc_lf_head ind z
    rw [slc_append_lf, slc_no_lf _ _ ht', e, spacesThenDashes_append_lf, spacesThenDashes_append_lf]

theorem spacesThenComment_slc (ind s : Bytes) : spacesThenComment (subLineComment ind s) = spacesThenComment s := by
  obtain ⟨t, z, rfl, ht, hz⟩ := head_decomp (· != 10) s
  have ht' : (10 : UInt8) ∉ t := fun h => by simpa using ht 10 h
  cases z with
  | nil => rw [List.append_nil, slc_no_lf _ _ ht']
  | cons c z =>
    have : c = 10 := by simpa using hz c rfl
    subst this
    obtain ⟨t', e⟩ := slc_lf_head ind z
    rw [slc_append_lf, slc_no_lf _ _ ht', e, spacesThenComment_append_lf, spacesThenComment_append_lf]

theorem mem_slc (ind s : Bytes) (x : UInt8) (h : x ∈ subLineComment ind s) : x ∈ s ∨ x ∈ ind := by
  induction s using slc_induction with
  | nil => simp at h
  | other b r hb ih =>
    rw [slc_cons_ne _ _ _ hb] at h; simp at h ⊢
    rcases h with h | h
    · exact Or.inl (Or.inl h)
    · rcases ih h with h | h
      · exact Or.inl (Or.inr h)
      · exact Or.inr h
  | comment n c r hc ih =>
    rw [slc_lf_comment _ _ _ _ hc] at h; simp at h ⊢
    rcases h with h | h | h | h
    · exact Or.inl (Or.inl h)
    · exact Or.inr h
    · exact Or.inl (Or.inr (Or.inr (Or.inl h)))
    · rcases ih h with h | h
      · exact Or.inl (Or.inr (Or.inr (Or.inr h)))
      · exact Or.inr h
  | lf r hr ih =>
    rw [slc_lf_none _ _ hr] at h; simp at h ⊢
    rcases h with h | h
    · exact Or.inl (Or.inl h)
    · rcases ih h with h | h
      · exact Or.inl (Or.inr h)
      · exact Or.inr h

theorem NoSpLF_slc (m : Nat) (s : Bytes) (h : NoSpLF s) : NoSpLF (subLineComment (List.replicate m 32) s) := by
  induction s using slc_induction with
  | nil => simp
  | other b r hb ih =>
    rw [slc_cons_ne _ _ _ hb]
    refine ⟨?_, ih h.2⟩
    intro hb' hr
    apply h.1 hb'
    cases r with
    | nil => simp at hr
    | cons c r =>
      by_cases hc : c = 10
      · simp [hc]
      · rw [slc_cons_ne _ _ _ hc] at hr; simp at hr; exact absurd hr hc
  | comment n c r hc ih =>
    rw [slc_lf_comment _ _ _ _ hc]
    have h2 := h.2
    rw [NoSpLF_sp_append _ _ (by simp [hc.ne10])] at h2
    refine ⟨by simp, ?_⟩
    rw [NoSpLF_sp_append _ _ (by simp [hc.ne10])]
    exact ⟨by simp [hc.ne32], by simp [hc.ne32], ih h2.2.2⟩
  | lf r hr ih =>
    rw [slc_lf_none _ _ hr]
    exact ⟨by simp, ih h.2⟩

/-! ### comment lines are indented by `m` -/

/-- every `<LF> <spaces> --` and `<LF> <spaces> //` has exactly `m` spaces -/
def LineOK (m : Nat) : Bytes → Prop
  | [] => True
  | b :: r => (b = 10 → ∀ n mk, spacesThenComment r = some (n, mk) → n = m) ∧ LineOK m r

@[simp] theorem LineOK_nil (m : Nat) : LineOK m [] := trivial
theorem LineOK_cons (m : Nat) (b : UInt8) (r : Bytes) :
    LineOK m (b :: r) ↔ (b = 10 → ∀ n mk, spacesThenComment r = some (n, mk) → n = m) ∧ LineOK m r := Iff.rfl

theorem LineOK_cons_ne (m : Nat) (c : UInt8) (r : Bytes) (h : c ≠ 10) : LineOK m (c :: r) ↔ LineOK m r := by
  show _ ∧ _ ↔ _
  simp [h]

theorem LineOK_sp_append (m n : Nat) (x : Bytes) : LineOK m (List.replicate n 32 ++ x) ↔ LineOK m x := by
  induction n with
  | zero => simp
  | succ n ih => rw [List.replicate_succ, List.cons_append, LineOK_cons_ne _ _ _ (by decide), ih]

theorem NoMark_tail {c : UInt8} {t : Bytes} (h : NoMark (c :: t)) : NoMark t :=
  ⟨fun h' => h.1 (List.mem_cons_of_mem _ h'), fun h' => h.2 (List.mem_cons_of_mem _ h')⟩

theorem LineOK_nomark (m : Nat) (t : Bytes) (h : NoMark t) : LineOK m t := by
  induction t with
  | nil => trivial
  | cons c t ih =>
    refine ⟨?_, ih (NoMark_tail h)⟩
    intro _ n mk hn
    have := spacesThenComment_append_nomark [] t (NoMark_tail h)
    rw [List.nil_append, hn, spacesThenComment_nil] at this
    simp at this

theorem LineOK_append_nomark (m : Nat) (a t : Bytes) (h : NoMark t) : LineOK m (a ++ t) ↔ LineOK m a := by
  induction a with
  | nil => simp [LineOK_nomark m t h]
  | cons c a ih =>
    rw [List.cons_append, LineOK_cons, LineOK_cons, ih, spacesThenComment_append_nomark a t h]

theorem LineOK_slc (m : Nat) (s : Bytes) : LineOK m (subLineComment (List.replicate m 32) s) := by
  induction s using slc_induction with
  | nil => simp
  | other b r hb ih => rw [slc_cons_ne _ _ _ hb, LineOK_cons_ne _ _ _ hb]; exact ih
  | comment n c r hc ih =>
    rw [slc_lf_comment _ _ _ _ hc]
    refine ⟨?_, ?_⟩
    · intro _ k mk hk; rw [spacesThenComment_comment _ _ _ hc] at hk; simp at hk; exact hk.1.symm
    · rw [LineOK_sp_append, LineOK_cons_ne _ _ _ hc.ne10, LineOK_cons_ne _ _ _ hc.ne10]; exact ih
  | lf r hr ih =>
    rw [slc_lf_none _ _ hr]
    refine ⟨?_, ih⟩
    intro _ k mk hk; rw [spacesThenComment_slc, hr] at hk; simp at hk

theorem slc_of_LineOK (m : Nat) (s : Bytes) (h : LineOK m s) : subLineComment (List.replicate m 32) s = s := by
  induction s using slc_induction with
  | nil => simp
  | other b r hb ih => rw [slc_cons_ne _ _ _ hb, ih ((LineOK_cons_ne _ _ _ hb).mp h)]
  | comment n c r hc ih =>
    have hn := h.1 rfl n _ (spacesThenComment_comment n c r hc)
    have h2 := h.2
    rw [LineOK_sp_append, LineOK_cons_ne _ _ _ hc.ne10, LineOK_cons_ne _ _ _ hc.ne10] at h2
    rw [slc_lf_comment _ _ _ _ hc, ih h2, hn]
  | lf r hr ih => rw [slc_lf_none _ _ hr, ih h.2]

/-! ### `subFinalIndent` -/

theorem subFinalIndent_spec (ind pre : Bytes) (k : Nat) (hp : pre.getLast? ≠ some 32) :
    subFinalIndent ind (pre ++ List.replicate k 32) =
      if pre.getLast? = some 10 then pre ++ ind else pre ++ List.replicate k 32 := by
  unfold subFinalIndent
  have hs : spanLen (· == 32) (pre ++ List.replicate k 32).reverse = k := by
    rw [spanLen_reverse (· == 32) pre (List.replicate k 32) (by simp) (by intro c hc; simp; rintro rfl; exact hp hc)]
    simp
  simp only [hs]
  rw [show (pre ++ List.replicate k (32 : UInt8)).length - k = pre.length by simp, List.take_left' rfl]

theorem subFinalIndent_lf (ind Y : Bytes) (k : Nat) :
    subFinalIndent ind (Y ++ 10 :: List.replicate k 32) = Y ++ 10 :: ind := by
  have := subFinalIndent_spec ind (Y ++ [10]) k (by simp)
  simpa using this

theorem subFinalIndent_cases (ind s : Bytes) :
    ∃ pre k, s = pre ++ List.replicate k 32 ∧ pre.getLast? ≠ some 32 ∧
      ((pre.getLast? = some 10 ∧ subFinalIndent ind s = pre ++ ind) ∨ (pre.getLast? ≠ some 10 ∧ subFinalIndent ind s = s)) := by
  obtain ⟨pre, k, rfl, hp⟩ := tail_sp_decomp s
  refine ⟨pre, k, rfl, hp, ?_⟩
  rw [subFinalIndent_spec ind pre k hp]
  by_cases h : pre.getLast? = some 10
  · exact Or.inl ⟨h, by simp [h]⟩
  · exact Or.inr ⟨h, by simp [h]⟩

theorem mem_subFinalIndent (ind s : Bytes) (x : UInt8) (h : x ∈ subFinalIndent ind s) : x ∈ s ∨ x ∈ ind := by
  obtain ⟨pre, k, rfl, _, ⟨_, e⟩ | ⟨_, e⟩⟩ := subFinalIndent_cases ind s
  · rw [e] at h; simp at h ⊢; rcases h with h | h
    · exact Or.inl (Or.inl h)
    · exact Or.inr h
  · rw [e] at h; exact Or.inl h

theorem NoSpLF_append_sp (pre : Bytes) (k : Nat) : NoSpLF (pre ++ List.replicate k 32) ↔ NoSpLF pre := by
  rw [NoSpLF_append]
  simp only [NoSpLF_sp, true_and, and_iff_left_iff_imp]
  intro _ h; cases k <;> simp [List.replicate_succ] at h

theorem NoSpLF_subFinalIndent (m : Nat) (s : Bytes) (h : NoSpLF s) : NoSpLF (subFinalIndent (List.replicate m 32) s) := by
  obtain ⟨pre, k, rfl, _, ⟨_, e⟩ | ⟨_, e⟩⟩ := subFinalIndent_cases (List.replicate m 32) s
  · rw [e, NoSpLF_append_sp]; exact (NoSpLF_append_sp pre k).mp h
  · rwa [e]

theorem not_dash_sp (k : Nat) : (45 : UInt8) ∉ List.replicate k (32 : UInt8) := by simp

theorem noMark_sp (k : Nat) : NoMark (List.replicate k (32 : UInt8)) := ⟨by simp, by simp⟩

theorem spacesThenComment_subFinalIndent (m : Nat) (s : Bytes) :
    spacesThenComment (subFinalIndent (List.replicate m 32) s) = spacesThenComment s := by
  obtain ⟨pre, k, rfl, _, ⟨_, e⟩ | ⟨_, e⟩⟩ := subFinalIndent_cases (List.replicate m 32) s
  · rw [e, spacesThenComment_append_nomark _ _ (noMark_sp m), spacesThenComment_append_nomark _ _ (noMark_sp k)]
  · rw [e]

theorem spacesThenDashes_subFinalIndent (m : Nat) (s : Bytes) :
    spacesThenDashes (subFinalIndent (List.replicate m 32) s) = spacesThenDashes s := by
  obtain ⟨pre, k, rfl, _, ⟨_, e⟩ | ⟨_, e⟩⟩ := subFinalIndent_cases (List.replicate m 32) s
  · rw [e, spacesThenDashes_append_nodash _ _ (not_dash_sp m), spacesThenDashes_append_nodash _ _ (not_dash_sp k)]
  · rw [e]

theorem LineOK_subFinalIndent (m m' : Nat) (s : Bytes) (h : LineOK m s) : LineOK m (subFinalIndent (List.replicate m' 32) s) := by
  obtain ⟨pre, k, rfl, _, ⟨_, e⟩ | ⟨_, e⟩⟩ := subFinalIndent_cases (List.replicate m' 32) s
  · rw [e, LineOK_append_nomark _ _ _ (noMark_sp m')]; exact (LineOK_append_nomark _ _ _ (noMark_sp k)).mp h
  · rwa [e]

theorem subFinalIndent_idem (ind s : Bytes) (hind : ∃ m, ind = List.replicate m 32) :
    subFinalIndent ind (subFinalIndent ind s) = subFinalIndent ind s := by
  obtain ⟨m, rfl⟩ := hind
  obtain ⟨pre, k, rfl, hp, ⟨h10, e⟩ | ⟨h10, e⟩⟩ := subFinalIndent_cases (List.replicate m 32) s
  · rw [e, subFinalIndent_spec _ pre m hp, if_pos h10]
  · rw [e, e]

/-! ### `subAllSpaces` -/

theorem subAllSpaces_cases (s : Bytes) : (s.all (· == 32) = true ∧ subAllSpaces s = []) ∨ (s.all (· == 32) = false ∧ subAllSpaces s = s) := by
  unfold subAllSpaces
  cases h : s.all (· == 32) <;> simp

/-! ### `collapseLF` -/

@[simp] theorem collapseLF_nil : collapseLF [] = [] := by rw [collapseLF]

theorem collapseLF_lf3 (r : Bytes) : collapseLF (10 :: 10 :: 10 :: r) = collapseLF (10 :: 10 :: r) := collapseLF.eq_1 r

theorem collapseLF_cons (b : UInt8) (r : Bytes) (h : b = 10 → r[0]? = some 10 → r[1]? = some 10 → False) :
    collapseLF (b :: r) = b :: collapseLF r := by
  apply collapseLF.eq_2; intro r' hb hr; subst hb hr; simp at h

theorem collapseLF_cons_ne (b : UInt8) (r : Bytes) (h : b ≠ 10) : collapseLF (b :: r) = b :: collapseLF r :=
  collapseLF_cons b r (fun hb => absurd hb h)

theorem collapseLF_head? (s : Bytes) : (collapseLF s).head? = s.head? := by
  induction s using collapseLF.induct with
  | case1 rest ih => rw [collapseLF_lf3, ih]; rfl
  | case2 b rest hb ih => rw [collapseLF.eq_2 b rest hb]; rfl
  | case3 => simp

theorem collapseLF_getLast? (s : Bytes) : (collapseLF s).getLast? = s.getLast? := by
  induction s using collapseLF.induct with
  | case1 rest ih => rw [collapseLF_lf3, ih]; simp [List.getLast?_cons_cons]
  | case2 b rest hb ih => rw [collapseLF.eq_2 b rest hb, List.getLast?_cons, ih, List.getLast?_cons]
  | case3 => simp

theorem mem_collapseLF (s : Bytes) (x : UInt8) : x ∈ collapseLF s ↔ x ∈ s := by
  induction s using collapseLF.induct with
  | case1 rest ih => rw [collapseLF_lf3, ih]; simp
  | case2 b rest hb ih => rw [collapseLF.eq_2 b rest hb]; simp [ih]
  | case3 => simp

theorem collapseLF_no_lf (s : Bytes) (h : (10 : UInt8) ∉ s) : collapseLF s = s := by
  induction s with
  | nil => simp
  | cons c s ih => simp at h; rw [collapseLF_cons_ne c s (Ne.symm h.1), ih h.2]

/-- compositional at a point that is not between two line feeds -/
theorem collapseLF_append (a c : Bytes) (h : a.getLast? = some 10 → c.head? ≠ some 10) :
    collapseLF (a ++ c) = collapseLF a ++ collapseLF c := by
  induction a using collapseLF.induct with
  | case1 rest ih =>
    rw [List.cons_append, List.cons_append, List.cons_append, collapseLF_lf3, collapseLF_lf3]
    exact ih (by simpa [List.getLast?_cons_cons] using h)
  | case2 b rest hb ih =>
    rw [List.cons_append, collapseLF.eq_2 b rest hb]
    cases rest with
    | nil =>
      rw [List.nil_append, collapseLF_nil, collapseLF_cons]
      · rfl
      · intro hb' h0 _; subst hb'
        apply h (by simp); cases c <;> simp_all
    | cons x rest =>
      have hl : (x :: rest).getLast? = some 10 → c.head? ≠ some 10 := by
        simpa [List.getLast?_cons_cons] using h
      rw [collapseLF_cons, ih hl, List.cons_append]
      intro hb' h0 h1; subst hb'
      simp at h0; subst h0
      cases rest with
      | nil =>
        apply hl (by simp); cases c <;> simp_all
      | cons y rest =>
        simp at h1; subst h1
        exact hb rest rfl rfl
  | case3 => simp

theorem collapseLF_lf_head (t : Bytes) : ∃ t', collapseLF (10 :: t) = 10 :: t' := by
  have := collapseLF_head? (10 :: t)
  cases h : collapseLF (10 :: t) with
  | nil => rw [h] at this; simp at this
  | cons c t' => rw [h] at this; simp at this; exact ⟨t', by rw [this]⟩

theorem spacesThenDashes_collapseLF (s : Bytes) : spacesThenDashes (collapseLF s) = spacesThenDashes s := by
  obtain ⟨t, z, rfl, ht, hz⟩ := head_decomp (· != 10) s
  have ht' : (10 : UInt8) ∉ t := fun h => by simpa using ht 10 h
  cases z with
  | nil => rw [List.append_nil, collapseLF_no_lf _ ht']
  | cons c z =>
    have : c = 10 := by simpa using hz c rfl
    subst this
    obtain ⟨t', e⟩ := collapseLF_lf_head z
    rw [collapseLF_append, collapseLF_no_lf _ ht', e, spacesThenDashes_append_lf, spacesThenDashes_append_lf]
    intro hl; exact absurd (List.mem_of_getLast? hl) ht'

theorem spacesThenComment_collapseLF (s : Bytes) : spacesThenComment (collapseLF s) = spacesThenComment s := by
  obtain ⟨t, z, rfl, ht, hz⟩ := head_decomp (· != 10) s
  have ht' : (10 : UInt8) ∉ t := fun h => by simpa using ht 10 h
  cases z with
  | nil => rw [List.append_nil, collapseLF_no_lf _ ht']
  | cons c z =>
    have : c = 10 := by simpa using hz c rfl
    subst this
    obtain ⟨t', e⟩ := collapseLF_lf_head z
    rw [collapseLF_append, collapseLF_no_lf _ ht', e, spacesThenComment_append_lf, spacesThenComment_append_lf]
    intro hl; exact absurd (List.mem_of_getLast? hl) ht'

theorem NoSpLF_collapseLF (s : Bytes) (h : NoSpLF s) : NoSpLF (collapseLF s) := by
  induction s using collapseLF.induct with
  | case1 rest ih => rw [collapseLF_lf3]; exact ih h.2
  | case2 b rest hb ih =>
    rw [collapseLF.eq_2 b rest hb]
    exact ⟨by rw [collapseLF_head?]; exact h.1, ih h.2⟩
  | case3 => simp

theorem LineOK_collapseLF (m : Nat) (s : Bytes) (h : LineOK m s) : LineOK m (collapseLF s) := by
  induction s using collapseLF.induct with
  | case1 rest ih => rw [collapseLF_lf3]; exact ih h.2
  | case2 b rest hb ih =>
    rw [collapseLF.eq_2 b rest hb]
    exact ⟨by rw [spacesThenComment_collapseLF]; exact h.1, ih h.2⟩
  | case3 => simp

/-! ### no three line feeds in a row -/

def NoTriple : Bytes → Prop
  | [] => True
  | b :: r => (b = 10 → r[0]? = some 10 → r[1]? = some 10 → False) ∧ NoTriple r

@[simp] theorem NoTriple_nil : NoTriple [] := trivial
theorem NoTriple_cons (b : UInt8) (r : Bytes) :
    NoTriple (b :: r) ↔ (b = 10 → r[0]? = some 10 → r[1]? = some 10 → False) ∧ NoTriple r := Iff.rfl

theorem NoTriple_index (s : Bytes) (h : NoTriple s) (i : Nat) :
    ¬ (s[i]? = some 10 ∧ s[i + 1]? = some 10 ∧ s[i + 2]? = some 10) := by
  induction s generalizing i with
  | nil => simp
  | cons c s ih =>
    cases i with
    | zero => simp; intro hc h0 h1; exact h.1 hc h0 h1
    | succ i => simpa using ih h.2 i

theorem collapseLF_of_NoTriple (s : Bytes) (h : NoTriple s) : collapseLF s = s := by
  induction s with
  | nil => simp
  | cons c s ih => rw [collapseLF_cons c s h.1, ih h.2]

theorem NoTriple_collapseLF (s : Bytes) : NoTriple (collapseLF s) := by
  induction s using collapseLF.induct with
  | case1 rest ih => rw [collapseLF_lf3]; exact ih
  | case2 b rest hb ih =>
    rw [collapseLF.eq_2 b rest hb]
    refine ⟨?_, ih⟩
    intro hb' h0 h1
    subst hb'
    -- `collapseLF rest` starts with two line feeds, so `rest` does
    cases rest with
    | nil => simp at h0
    | cons x rest =>
      have hx : x = 10 := by
        have := collapseLF_head? (x :: rest)
        rw [List.head?_eq_getElem?, h0] at this; simpa using this.symm
      subst hx
      cases rest with
      | nil => rw [collapseLF_cons 10 [] (by simp)] at h1; simp at h1
      | cons y rest =>
        by_cases hy : y = 10
        · subst hy; exact hb rest rfl rfl
        · rw [collapseLF_cons 10 (y :: rest) (by simp [hy]), collapseLF_cons_ne y rest hy] at h1
          simp at h1; exact hy h1
  | case3 => simp

theorem NoTriple_prefix (a b : Bytes) (h : NoTriple (a ++ b)) : NoTriple a := by
  induction a with
  | nil => simp
  | cons c a ih =>
    refine ⟨?_, ih h.2⟩
    intro hc h0 h1
    apply h.1 hc
    · match a, h0 with
      | x :: a, h0 => simpa using h0
    · match a, h1 with
      | x :: y :: a, h1 => simpa using h1

theorem NoTriple_append (a b : Bytes) (hb : a.getLast? = some 10 → b.head? ≠ some 10) (h1 : NoTriple a) (h2 : NoTriple b) :
    NoTriple (a ++ b) := by
  induction a with
  | nil => simpa
  | cons c a ih =>
    cases a with
    | nil =>
      refine ⟨?_, by simpa using h2⟩
      intro hc h0 _
      apply hb (by simp [hc])
      cases b <;> simp_all
    | cons x a =>
      have hb' : (x :: a).getLast? = some 10 → b.head? ≠ some 10 := by simpa [List.getLast?_cons_cons] using hb
      refine ⟨?_, ih hb' h1.2⟩
      intro hc h0 h1'
      simp at h0
      cases a with
      | nil =>
        apply hb' (by simp [h0])
        cases b <;> simp_all
      | cons y a => simp at h1'; exact h1.1 hc (by simp [h0]) (by simp [h1'])

/-! ### `subTrailing` -/

theorem subTrailing_spec (pre t : Bytes) (hp : pre.getLast? ≠ some 32 ∧ pre.getLast? ≠ some 10)
    (ht : ∀ x ∈ t, x = 32 ∨ x = 10) :
    subTrailing (pre ++ t) = pre ++ (if t.contains 10 then [10] else []) := by
  unfold subTrailing
  have hs : spanLen (fun b => b == 32 || b == 10) (pre ++ t).reverse = t.length := by
    apply spanLen_reverse
    · intro x hx; simpa using ht x hx
    · intro c hc; simp; constructor <;> rintro rfl
      · exact hp.1 hc
      · exact hp.2 hc
  simp only [hs]
  rw [show (pre ++ t).length - t.length = pre.length by simp, List.take_left' rfl, List.drop_left' rfl]
  split
  · rename_i h0
    have : t = [] := List.length_eq_zero_iff.mp h0
    subst this; simp
  · rfl

theorem subTrailing_cases (s : Bytes) :
    ∃ pre t, s = pre ++ t ∧ (pre.getLast? ≠ some 32 ∧ pre.getLast? ≠ some 10) ∧ (∀ x ∈ t, x = 32 ∨ x = 10) ∧
      subTrailing s = pre ++ (if t.contains 10 then [10] else []) := by
  obtain ⟨pre, t, rfl, ht, hp⟩ := tail_decomp (fun b => b == 32 || b == 10) s
  have hp' : pre.getLast? ≠ some 32 ∧ pre.getLast? ≠ some 10 :=
    ⟨fun h => by simpa using hp 32 h, fun h => by simpa using hp 10 h⟩
  have ht' : ∀ x ∈ t, x = 32 ∨ x = 10 := fun x hx => by simpa using ht x hx
  exact ⟨pre, t, rfl, hp', ht', subTrailing_spec pre t hp' ht'⟩

theorem mem_subTrailing (s : Bytes) (x : UInt8) (h : x ∈ subTrailing s) : x ∈ s := by
  obtain ⟨pre, t, rfl, _, _, e⟩ := subTrailing_cases s
  rw [e] at h
  simp only [List.mem_append] at h ⊢
  rcases h with h | h
  · exact Or.inl h
  · split at h
    · rename_i hc; simp at h; subst h; exact Or.inr (by simpa using hc)
    · simp at h

theorem not_dash_of_ws (t : Bytes) (ht : ∀ x ∈ t, x = 32 ∨ x = 10) : (45 : UInt8) ∉ t := by
  intro h; rcases ht 45 h with h | h <;> simp at h

theorem not_dash_trail (t : Bytes) : (45 : UInt8) ∉ (if t.contains 10 then [10] else ([] : Bytes)) := by
  split <;> simp

theorem noMark_of_ws (t : Bytes) (ht : ∀ x ∈ t, x = 32 ∨ x = 10) : NoMark t := by
  constructor <;> intro h <;> rcases ht _ h with h | h <;> simp at h

theorem noMark_trail (t : Bytes) : NoMark (if t.contains 10 then [10] else ([] : Bytes)) := by
  constructor <;> split <;> simp

theorem NoSpLF_subTrailing (s : Bytes) (h : NoSpLF s) : NoSpLF (subTrailing s) := by
  obtain ⟨pre, t, rfl, hp, _, e⟩ := subTrailing_cases s
  rw [e, NoSpLF_append]
  refine ⟨((NoSpLF_append pre t).mp h).1, ?_, fun hh => hp.1 hh.1⟩
  split
  · exact ⟨by simp, trivial⟩
  · trivial

theorem NoTriple_subTrailing (s : Bytes) (h : NoTriple s) : NoTriple (subTrailing s) := by
  obtain ⟨pre, t, rfl, hp, _, e⟩ := subTrailing_cases s
  rw [e]
  apply NoTriple_append _ _ (fun hh => absurd hh hp.2) (NoTriple_prefix pre t h)
  split
  · exact ⟨by simp, trivial⟩
  · trivial

theorem LineOK_subTrailing (m : Nat) (s : Bytes) (h : LineOK m s) : LineOK m (subTrailing s) := by
  obtain ⟨pre, t, rfl, _, ht, e⟩ := subTrailing_cases s
  rw [e, LineOK_append_nomark _ _ _ (noMark_trail t)]
  exact (LineOK_append_nomark _ _ _ (noMark_of_ws t ht)).mp h

theorem spacesThenDashes_subTrailing (s : Bytes) : spacesThenDashes (subTrailing s) = spacesThenDashes s := by
  obtain ⟨pre, t, rfl, _, ht, e⟩ := subTrailing_cases s
  rw [e, spacesThenDashes_append_nodash _ _ (not_dash_trail t), spacesThenDashes_append_nodash _ _ (not_dash_of_ws t ht)]

theorem spacesThenComment_subTrailing (s : Bytes) : spacesThenComment (subTrailing s) = spacesThenComment s := by
  obtain ⟨pre, t, rfl, _, ht, e⟩ := subTrailing_cases s
  rw [e, spacesThenComment_append_nomark _ _ (noMark_trail t), spacesThenComment_append_nomark _ _ (noMark_of_ws t ht)]

/-! ### `normBreaks` -/

theorem subCRLF_head?_cr (y : Bytes) (h : (subCRLF y).head? = some 13) : y.head? = some 13 := by
  induction y using subCRLF.induct with
  | case1 rest _ => rw [subCRLF_crlf] at h; simp at h
  | case2 b rest hb _ => rw [subCRLF.eq_2 b rest hb] at h; simpa using h
  | case3 => simp at h

theorem subTab_getLast?_cr (x : Bytes) (h : (subTab x).getLast? = some 13) : x.getLast? = some 13 := by
  unfold subTab at h
  rw [List.getLast?_map] at h
  cases hx : x.getLast? with
  | none => rw [hx] at h; simp at h
  | some c => rw [hx] at h; simp at h; split at h <;> simp_all

theorem subTab_head?_cr (x : Bytes) (h : (subTab x).head? = some 13) : x.head? = some 13 := by
  cases x with
  | nil => simp at h
  | cons c x => rw [subTab_cons] at h; simp at h; split at h <;> simp_all

/-- the line-break rewrites are compositional at a point that is neither after a CR nor before one -/
theorem normBreaks_append (x y : Bytes) (hx : x.getLast? ≠ some 13) (hy : y.head? ≠ some 13) :
    normBreaks (x ++ y) = normBreaks x ++ normBreaks y := by
  unfold normBreaks
  rw [subTab_append, subCRLF_append _ _ (fun h => absurd (subTab_getLast?_cr x h) hx),
    subLFCR_append _ _ (fun _ h => hy (subTab_head?_cr y (subCRLF_head?_cr _ h))), subCR_append]

theorem normBreaks_id (s : Bytes) (h9 : (9 : UInt8) ∉ s) (h13 : (13 : UInt8) ∉ s) : normBreaks s = s := by
  unfold normBreaks
  rw [subTab_id s h9, subCRLF_id s h13, subLFCR_id s h13, subCR_id s h13]

theorem normBreaks_ws (ws : Bytes) (h : ws.all (fun c => c == 32 || c == 9) = true) :
    normBreaks ws = List.replicate ws.length 32 := by
  unfold normBreaks
  rw [subTab_ws ws h, subCRLF_id _ (by simp), subLFCR_id _ (by simp), subCR_id _ (by simp)]

theorem normBreaks_getLast?_lf (s : Bytes) (h : s.getLast? = some 10) : (normBreaks s).getLast? = some 10 := by
  unfold normBreaks
  have h1 : (subTab s).getLast? = some 10 := by unfold subTab; rw [List.getLast?_map, h]; rfl
  have h2 := subLFCR_getLast?_lf _ ((subCRLF_getLast? _).trans h1)
  unfold subCR; rw [List.getLast?_map, h2]; rfl

theorem normBreaks_lf_cons (b : Bytes) : ∃ b', normBreaks (10 :: b) = 10 :: b' := by
  unfold normBreaks
  rw [subTab_cons, if_neg (by decide), subCRLF_cons_ne _ _ (by decide)]
  have : ∃ z, subLFCR (10 :: subCRLF (subTab b)) = 10 :: z := by
    cases hz : subCRLF (subTab b) with
    | nil => exact ⟨[], by rw [subLFCR_cons _ _ (by simp)]; simp⟩
    | cons c z =>
      by_cases hc : c = 13
      · subst hc; exact ⟨_, subLFCR_lfcr z⟩
      · exact ⟨_, subLFCR_cons _ _ (by simp [hc])⟩
  obtain ⟨z, hz⟩ := this
  rw [hz, subCR_cons, if_neg (by decide)]
  exact ⟨_, rfl⟩

theorem normBreaks_marker (c : UInt8) (b : Bytes) (hc : Mk c) : normBreaks (c :: c :: b) = c :: c :: normBreaks b := by
  unfold normBreaks
  rw [subTab_cons, subTab_cons, if_neg hc.ne9, subCRLF_cons_ne _ _ hc.ne13, subCRLF_cons_ne _ _ hc.ne13,
    subLFCR_cons_ne _ _ hc.ne10, subLFCR_cons_ne _ _ hc.ne10, subCR_cons, subCR_cons, if_neg hc.ne13]

theorem normBreaks_clean (s : Bytes) (x : UInt8) (h : x ∈ normBreaks s) : x ≠ 9 ∧ x ≠ 13 := by
  unfold normBreaks at h
  refine ⟨?_, fun h13 => not_cr_subCR _ (h13 ▸ h)⟩
  rintro rfl
  rcases mem_subCR _ _ h with h | h
  · exact not_tab_subTab s (mem_subCRLF _ _ (mem_subLFCR _ _ h))
  · simp at h

end Pico.Ast
