import PicoVerif.Model.Include
/-! Lemmas for C20: unfoldings of `includeLine` / `processIncludes`, `withNewline`, `linesForTab`. -/
namespace Pico.Inc
open Pico.Path

theorem withNewline_last (l : Bytes) : (withNewline l).getLast? = some 10 := by
  unfold withNewline
  split
  · assumption
  · simp

/-- `processIncludes` on a cons, projected to the result -/
theorem processIncludes_cons_ok (fs : FS) (root dir : P) (l : Bytes) (rest out : List Bytes)
    (h : (processIncludes fs root dir (l :: rest)).1 = .ok out) :
    ∃ ls ls2, (includeLine fs root dir l).1 = .ok ls ∧ (processIncludes fs root dir rest).1 = .ok ls2 ∧
      out = ls ++ ls2 := by
  rw [processIncludes] at h
  split at h
  · simp at h
  · rename_i ls acc heq
    split at h
    · simp at h
    · rename_i ls2 acc2 heq2
      refine ⟨ls, ls2, by rw [heq], by rw [heq2], ?_⟩
      simpa using h.symm

theorem processIncludes_cons_err (fs : FS) (root dir : P) (l : Bytes) (rest : List Bytes) (e : Err)
    (h : (includeLine fs root dir l).1 = .error e) :
    (processIncludes fs root dir (l :: rest)).1 = .error e := by
  rw [processIncludes]
  split
  · rename_i e' acc heq
    rw [heq] at h
    simpa using h
  · rename_i ls acc heq
    rw [heq] at h
    simp at h

theorem processIncludes_cons_ok_err (fs : FS) (root dir : P) (l : Bytes) (rest ls : List Bytes) (e : Err)
    (h : (includeLine fs root dir l).1 = .ok ls) (h2 : (processIncludes fs root dir rest).1 = .error e) :
    (processIncludes fs root dir (l :: rest)).1 = .error e := by
  rw [processIncludes]
  split
  · rename_i e' acc heq
    rw [heq] at h
    simp at h
  · rename_i ls' acc heq
    split
    · rename_i e' acc2 heq2
      rw [heq2] at h2
      simpa using h2
    · rename_i ls2 acc2 heq2
      rw [heq2] at h2
      simp at h2

theorem splice_aux (fs : FS) (root dir : P) (lines : List Bytes) : ∀ (out : List Bytes),
    (processIncludes fs root dir lines).1 = .ok out →
    ∃ parts : List (List Bytes), parts.length = lines.length ∧ out = parts.flatten ∧
      ∀ i (hi : i < lines.length), (includeLine fs root dir lines[i]).1 = .ok (parts.getD i []) := by
  induction lines with
  | nil =>
    intro out h
    refine ⟨[], rfl, ?_, ?_⟩
    · simpa [processIncludes] using h.symm
    · intro i hi; simp at hi
  | cons l rest ih =>
    intro out h
    obtain ⟨ls, ls2, h1, h2, rfl⟩ := processIncludes_cons_ok fs root dir l rest out h
    obtain ⟨parts, hlen, rfl, hp⟩ := ih ls2 h2
    refine ⟨ls :: parts, by simp [hlen], by simp, ?_⟩
    intro i hi
    cases i with
    | zero => simpa using h1
    | succ j =>
      have := hp j (by simpa using hi)
      simpa using this

theorem error_propagates_aux (fs : FS) (root dir : P) (pre post : List Bytes) (line : Bytes) (e : Err)
    (h : (includeLine fs root dir line).1 = .error e) : ∀ o,
    (processIncludes fs root dir pre).1 = .ok o →
    (processIncludes fs root dir (pre ++ line :: post)).1 = .error e := by
  induction pre with
  | nil => intro _ _; exact processIncludes_cons_err fs root dir line post e h
  | cons l rest ih =>
    intro o ho
    obtain ⟨ls, ls2, h1, h2, _⟩ := processIncludes_cons_ok fs root dir l rest o ho
    exact processIncludes_cons_ok_err fs root dir l _ ls e h1 (ih ls2 h2)

theorem linesForTab_none (ls : List Bytes) : ∀ cur, linesForTab none ls cur = ls := by
  induction ls with
  | nil => intro cur; rfl
  | cons l rest ih =>
    intro cur
    rw [linesForTab]
    split <;> simp [ih]


theorem linesForTab_past (n : Nat) (ls : List Bytes) : ∀ cur, n < cur → linesForTab (some n) ls cur = [] := by
  induction ls with
  | nil => intro cur _; rfl
  | cons l rest ih =>
    intro cur h
    rw [linesForTab]
    split
    · simp [ih (cur + 1) (by omega)]
    · have : n ≠ cur := by omega
      simp [ih cur h, this]

/-- copy of `Pico.C20.splitTabs` (which lives in the Props file) -/
def splitTabs' : List Bytes → List Bytes → List (List Bytes)
  | [], cur => [cur.reverse]
  | l :: rest, cur => if isTabLine l then cur.reverse :: splitTabs' rest [] else splitTabs' rest (l :: cur)

theorem linesForTab_some_aux (n : Nat) (ls : List Bytes) : ∀ cur acc, cur ≤ n →
    (if n = cur then acc.reverse else []) ++ linesForTab (some n) ls cur = (splitTabs' ls acc).getD (n - cur) [] := by
  induction ls with
  | nil =>
    intro cur acc h
    simp only [linesForTab, splitTabs', List.append_nil]
    by_cases hn : n = cur
    · subst hn; simp
    · have : n - cur = (n - cur - 1) + 1 := by omega
      rw [this]; simp [hn]
  | cons l rest ih =>
    intro cur acc h
    rw [linesForTab, splitTabs']
    by_cases ht : isTabLine l = true
    · simp only [ht, if_true]
      by_cases hn : n = cur
      · subst hn
        simp [linesForTab_past n rest (n + 1) (by omega)]
      · have h1 : n - cur = (n - (cur + 1)) + 1 := by omega
        have := ih (cur + 1) [] (by omega)
        rw [h1, List.getD_cons_succ, ← this]
        simp [hn]
    · simp only [ht, Bool.false_eq_true, if_false]
      have := ih cur (l :: acc) h
      rw [← this]
      by_cases hn : n = cur
      · subst hn; simp
      · simp [hn]

end Pico.Inc
