import PicoVerif.Lemmas.PegAdj
import PicoVerif.Props.C08
import PicoVerif.Lemmas.C01
import PicoVerif.Lemmas.C01AdjAux
/-! The adjacency analysis read at picotool's grammar: no program that the parser accepts to its last significant token
contains two neighbouring symbol/number tokens that would fuse when written back to back (`C01.FusablePair`). -/
namespace Pico.C01A
open Pico.Peg Pico.Lex Pico.Adj

/-- the two facts about the computed table, evaluated together (the kernel then computes `picoTbl` once): it is closed
under picotool's grammar, and every pattern pair in the adjacency mask of a whole program is `pairSafe` -/
def picoFacts (cls : List Pat) (tbl : List Sm) : Bool :=
  closed cls Gram.gram tbl && tableOK cls (tblOf tbl Gram.nChunk).adj

theorem pico_facts : picoFacts picoCls picoTbl = true := by decide +kernel

/-- the table computed by iteration is closed under picotool's grammar -/
theorem pico_closed : closed picoCls Gram.gram picoTbl = true :=
  (Bool.and_eq_true _ _ ▸ pico_facts : _ ∧ _).1

/-- **table fact**: every ordered pair of token patterns that the analysis lists as possibly adjacent in a program is in
the pattern table, and is a pair whose symbol/number tokens never fuse (`pairSafe`) -/
theorem pico_table : tableOK picoCls (tblOf picoTbl Gram.nChunk).adj = true :=
  (Bool.and_eq_true _ _ ▸ pico_facts : _ ∧ _).2

theorem picoTbl_length : picoTbl.length = 17 := by decide +kernel

theorem pico_beyond : ∀ n, picoTbl.length ≤ n → Gram.gram n = .notAhead .eps := by
  intro n hn
  rw [picoTbl_length] at hn
  have e : ∀ k, k < 17 → (n == k) = false := fun k hk => by simp only [beq_eq_false_iff_ne]; omega
  unfold Gram.gram
  simp only [Gram.nChunk, Gram.nStat, Gram.nLastStat, Gram.nFuncName, Gram.nVarList, Gram.nVar, Gram.nNameList,
    Gram.nExpList, Gram.nExp, Gram.nExpTerm, Gram.nPrefixExp, Gram.nFunctionCall, Gram.nArgs, Gram.nFunction,
    Gram.nFuncBody, Gram.nTableCons, Gram.nField]
  simp only [e 0 (by omega), e 1 (by omega), e 2 (by omega), e 3 (by omega), e 4 (by omega), e 5 (by omega),
    e 6 (by omega), e 7 (by omega), e 8 (by omega), e 9 (by omega), e 10 (by omega), e 11 (by omega),
    e 12 (by omega), e 13 (by omega), e 14 (by omega), e 15 (by omega), e 16 (by omega), Bool.false_eq_true, if_false]

/-- symbol/number tokens as in `C01.NoFusablePair` -/
def sn (k : Kind) : Prop := k = .symbol ∨ k = .number

/-- **main lemma**: in the output of the lexer, if picotool's parser accepts it and consumes it to its last significant
token, no two neighbouring significant symbol/number tokens form a `fusable` pair (the Boolean of `Lemmas/C01Min`, which
is what `C01.FusablePair` unfolds to). Stated on `t.data`; for symbols and numbers `t.code = t.data` (`C01L.code_plain`). -/
theorem parsed_no_fusable (src : Bytes) (toks : List Tok) (hl : lex [src] = .ok toks) (fuel : Nat)
    (ts : List Tree) (st' : PSt)
    (hp : run Gram.gram toks.toArray fuel (.nt Gram.nChunk) { pos := 0, maxPos := none } = .ok (some (ts, st')))
    (hend : skipTrivia toks.toArray st'.pos ≥ toks.toArray.size) :
    ∀ i a b, (toks.filter (fun t => !t.trivia))[i]? = some a → (toks.filter (fun t => !t.trivia))[i + 1]? = some b →
      sn a.kind → sn b.kind → C01L.fusable a.data b.data = false := by
  intro i a b ha hb hsa hsb
  have hleaves : toksAt toks.toArray (leavesL ts) = toks.filter (fun t => !t.trivia) := by
    rw [(C08.cover Gram.gram toks.toArray fuel _ _ _ _ hp).2]
    show toksAt toks.toArray (sigIdx toks.toArray 0 st'.pos) = _
    rw [sigIdx_end _ _ hend, toksAt_all]
  obtain ⟨p, q, hpa, hqb, hbit⟩ := Adj.run_adj picoCls Gram.gram picoTbl pico_closed pico_beyond toks.toArray fuel _ _ _ _
    hp i a b (by rw [hleaves]; exact ha) (by rw [hleaves]; exact hb)
  simp only [summ] at hbit
  have hsafe := tableOK_sound picoCls _ p q pico_table hbit
  have hwf := C01L.lex_wf src toks hl
  have hma : a ∈ toks := (List.mem_filter.mp (List.mem_of_getElem? ha)).1
  have hmb : b ∈ toks := (List.mem_filter.mp (List.mem_of_getElem? hb)).1
  exact pairSafe_sound p q a b hpa hqb hsa hsb (hwf a hma) (hwf b hmb) hsafe

/-- non-vacuity: `a=b- -c` is lexed, parsed, and consumed to its last significant token -/
example : (match lex ["a=b- -c\n".toUTF8.toList] with
    | .ok toks =>
      (match run Gram.gram toks.toArray 600 (.nt Gram.nChunk) { pos := 0, maxPos := none } with
       | .ok (some (_, st)) => decide (skipTrivia toks.toArray st.pos ≥ toks.toArray.size)
       | _ => false)
    | _ => false) = true := by decide +kernel

end Pico.C01A
