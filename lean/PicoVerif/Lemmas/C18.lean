import PicoVerif.Model.CartMem
/-! Helper lemmas for C18 (raw cart-memory writes). -/
namespace Pico.CartMem

theorem writeRegion_length (startA endA : Nat) (sec data : Bytes) (a : Nat)
    (hlen : sec.length = endA - startA) (hle : startA ≤ endA) :
    (writeRegion startA endA sec data a).length = sec.length := by
  unfold writeRegion pySliceAssign pySlice
  simp only []
  split
  · rfl
  · simp only [List.length_append, List.length_take, List.length_drop]; omega

theorem writeRegion_getElem? (startA endA : Nat) (sec data : Bytes) (a : Nat)
    (hlen : sec.length = endA - startA) (hle : startA ≤ endA) (j : Nat) :
    (writeRegion startA endA sec data a)[j]? =
      if j < sec.length ∧ a ≤ startA + j ∧ startA + j < a + data.length
      then data[startA + j - a]? else sec[j]? := by
  unfold writeRegion pySliceAssign pySlice
  simp only []
  split
  · rw [if_neg (by omega)]
  · simp only [List.getElem?_append, List.length_append, List.length_take, List.length_drop,
      List.getElem?_take, List.getElem?_drop]
    grind

/-- with the regenerated memory map, `writeAll` is the five region writes -/
theorem writeAll_memmap (m : Mem) (d : Bytes) (a : Nat) :
    writeAll Gen.memmap m d a =
      ⟨writeRegion 0 0x2000 m.gfx d a, writeRegion 0x2000 0x3000 m.map d a,
       writeRegion 0x3000 0x3100 m.gff d a, writeRegion 0x3100 0x3200 m.music d a,
       writeRegion 0x3200 0x4300 m.sfx d a⟩ := by
  simp [writeAll, Gen.memmap, Mem.set, Mem.get]

theorem writeCartData_ok_iff (m : Mem) (d : Bytes) (a : Nat) (m' : Mem) :
    writeCartData m d a = .ok m' ↔ a + d.length ≤ 0x4300 ∧ m' = writeAll Gen.memmap m d a := by
  unfold writeCartData
  by_cases hc : a + d.length > Gen.cartEnd
  · rw [if_pos hc]
    have : Gen.cartEnd = 0x4300 := rfl
    constructor
    · intro h; cases h
    · intro h; omega
  · rw [if_neg hc]
    have : Gen.cartEnd = 0x4300 := rfl
    constructor
    · intro h; cases h; exact ⟨by omega, rfl⟩
    · intro h; rw [h.2]

theorem writeAll_WF (m : Mem) (d : Bytes) (a : Nat) (h : m.WF) : (writeAll Gen.memmap m d a).WF := by
  obtain ⟨h1, h2, h3, h4, h5⟩ := h
  rw [writeAll_memmap]
  refine ⟨?_, ?_, ?_, ?_, ?_⟩ <;> simp only [] <;> rw [writeRegion_length] <;> first | assumption | omega

theorem flat_length (m : Mem) (h : m.WF) : m.flat.length = 0x4300 := by
  obtain ⟨h1, h2, h3, h4, h5⟩ := h
  simp only [Mem.flat, List.length_append]; omega

theorem flat_getElem? (m : Mem) (h : m.WF) (i : Nat) :
    m.flat[i]? = if i < 0x2000 then m.gfx[i]? else if i < 0x3000 then m.map[i - 0x2000]?
      else if i < 0x3100 then m.gff[i - 0x3000]? else if i < 0x3200 then m.music[i - 0x3100]?
      else m.sfx[i - 0x3200]? := by
  obtain ⟨h1, h2, h3, h4, h5⟩ := h
  simp only [Mem.flat, List.getElem?_append, List.length_append, h1, h2, h3, h4, Nat.reduceAdd]
  grind

/-- region-relative form of `writeRegion_getElem?` for an absolute address `i` -/
theorem writeRegion_getElem?_abs (startA endA : Nat) (sec data : Bytes) (a : Nat)
    (hlen : sec.length = endA - startA) (hle : startA ≤ endA) (i : Nat) (hi : startA ≤ i)
    (hlt : i < endA ∨ a + data.length ≤ endA) :
    (writeRegion startA endA sec data a)[i - startA]? =
      if a ≤ i ∧ i < a + data.length then data[i - a]? else sec[i - startA]? := by
  rw [writeRegion_getElem? startA endA sec data a hlen hle]
  have e : startA + (i - startA) = i := by omega
  rw [e]
  by_cases c : a ≤ i ∧ i < a + data.length
  · rw [if_pos c, if_pos (by omega)]
  · rw [if_neg c, if_neg (by omega)]

theorem writeAll_flat_getElem? (m : Mem) (d : Bytes) (a : Nat) (h : m.WF)
    (hfit : a + d.length ≤ 0x4300) (i : Nat) :
    (writeAll Gen.memmap m d a).flat[i]? =
      if a ≤ i ∧ i < a + d.length then d[i - a]? else m.flat[i]? := by
  rw [flat_getElem? _ (writeAll_WF m d a h), flat_getElem? m h, writeAll_memmap]
  obtain ⟨h1, h2, h3, h4, h5⟩ := h
  simp only []
  by_cases c1 : i < 0x2000
  · simp only [c1, ↓reduceIte]
    exact writeRegion_getElem?_abs 0 0x2000 m.gfx d a (by rw [h1]) (by decide) i (by omega) (.inl c1)
  by_cases c2 : i < 0x3000
  · simp only [c1, c2, ↓reduceIte]
    exact writeRegion_getElem?_abs 0x2000 0x3000 m.map d a (by rw [h2]) (by decide) i (by omega) (.inl c2)
  by_cases c3 : i < 0x3100
  · simp only [c1, c2, c3, ↓reduceIte]
    exact writeRegion_getElem?_abs 0x3000 0x3100 m.gff d a (by rw [h3]) (by decide) i (by omega) (.inl c3)
  by_cases c4 : i < 0x3200
  · simp only [c1, c2, c3, c4, ↓reduceIte]
    exact writeRegion_getElem?_abs 0x3100 0x3200 m.music d a (by rw [h4]) (by decide) i (by omega) (.inl c4)
  · simp only [c1, c2, c3, c4, ↓reduceIte]
    exact writeRegion_getElem?_abs 0x3200 0x4300 m.sfx d a (by rw [h5]) (by decide) i (by omega) (.inr hfit)

theorem writeAll_flat (m : Mem) (d : Bytes) (a : Nat) (h : m.WF) (hfit : a + d.length ≤ 0x4300) :
    (writeAll Gen.memmap m d a).flat = m.flat.take a ++ d ++ m.flat.drop (a + d.length) := by
  apply List.ext_getElem?
  intro i
  have hl := flat_length m h
  rw [writeAll_flat_getElem? m d a h hfit]
  simp only [List.getElem?_append, List.length_append, List.length_take, List.getElem?_take,
    List.getElem?_drop]
  grind

end Pico.CartMem
