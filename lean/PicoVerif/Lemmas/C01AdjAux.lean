import PicoVerif.Lemmas.PegAdj
import PicoVerif.Props.C08
import PicoVerif.Lemmas.C01
/-! Helper lemmas for `Lemmas/C01Adj.lean`: significant tokens of a whole token list, the pattern table, the bytes of a
numeral, and the fusable test between symbols and numerals. -/
namespace Pico.C01A
open Pico.Peg Pico.Lex Pico.Adj Pico.C01L Pico.Wr

/-! ### the leaves of a parse that reaches the last significant token -/

theorem sigIdx_nil_of_ge (toks : Array Tok) (a b : Nat) (h : toks.size ≤ a) : sigIdx toks a b = [] := by
  unfold sigIdx
  rw [List.filter_eq_nil_iff]
  intro i hi
  have h1 := (List.mem_range'_1.mp hi).1
  have : ¬ i < toks.size := by omega
  simp [sig, this]

theorem sigIdx_end (toks : Array Tok) (p : Nat) (h : skipTrivia toks p ≥ toks.size) :
    sigIdx toks 0 p = sigIdx toks 0 toks.size := by
  by_cases hp : p ≤ toks.size
  · have h1 := sigIdx_skip toks p
    rw [← sigIdx_append toks hp h] at h1
    have h2 : sigIdx toks p toks.size = [] := (List.append_eq_nil_iff.mp h1).1
    rw [← sigIdx_append toks (Nat.zero_le p) hp, h2, List.append_nil]
  · have hp' : toks.size ≤ p := by omega
    rw [← sigIdx_append toks (Nat.zero_le _) hp', sigIdx_nil_of_ge toks _ _ (Nat.le_refl _), List.append_nil]

theorem filterMap_range (f : Nat → Option Tok) (p : Nat → Bool) (l : List Tok) (off : Nat)
    (hf : ∀ i, i < l.length → f (off + i) = l[i]?)
    (hp : ∀ i (h : i < l.length), p (off + i) = !(l[i]).trivia) :
    ((List.range' off l.length).filter p).filterMap f = l.filter (fun t => !t.trivia) := by
  induction l generalizing off with
  | nil => simp
  | cons t r ih =>
    have h0 := hf 0 (by simp)
    have p0 := hp 0 (by simp)
    simp only [Nat.add_zero, List.getElem?_cons_zero, List.getElem_cons_zero] at h0 p0
    have ih' := ih (off + 1)
      (fun i hi => by
        have := hf (i + 1) (by simp; omega)
        simpa [Nat.add_assoc, Nat.add_comm 1] using this)
      (fun i hi => by
        have := hp (i + 1) (by simp; omega)
        simpa [Nat.add_assoc, Nat.add_comm 1] using this)
    simp only [List.length_cons, List.range'_succ, List.filter_cons, p0]
    cases ht : t.trivia
    · simp [h0, ih']
    · simp [ih']

theorem toksAt_all (toks : List Tok) :
    toksAt toks.toArray (sigIdx toks.toArray 0 toks.toArray.size) = toks.filter (fun t => !t.trivia) := by
  unfold toksAt sigIdx
  simp only [Nat.sub_zero, List.size_toArray]
  apply filterMap_range
  · intro i hi; simp
  · intro i hi; simp [sig, hi]

/-! ### the pattern table -/

theorem patEq_eq (p q : Pat) (h : patEq p q = true) : p = q := by
  cases p <;> cases q <;> simp [patEq] at h ⊢ <;> exact h

theorem idx_le (cls : List Pat) (p : Pat) : idx cls p ≤ cls.length := by
  induction cls with
  | nil => simp [idx]
  | cons q r ih => unfold idx; split <;> simp <;> omega

theorem idx_get (cls : List Pat) (p : Pat) (h : idx cls p < cls.length) : cls[idx cls p]? = some p := by
  induction cls with
  | nil => simp [idx] at h
  | cons q r ih =>
    unfold idx at h ⊢
    split
    · rename_i hq; simp [patEq_eq _ _ hq]
    · rename_i hq
      simp only [hq, Bool.false_eq_true, if_false, List.length_cons] at h
      simp only [List.getElem?_cons_succ]
      exact ih (by omega)

/-! ### the bytes of a numeral -/

/-- bytes a numeral can contain (over-approximation) -/
def numCh (b : UInt8) : Bool := isIdentChar b || b == 46 || b == 45

theorem ident_numCh (b : UInt8) (h : isIdentChar b = true) : numCh b = true := by simp [numCh, h]
theorem digit_numCh (b : UInt8) (h : isDigit b = true) : numCh b = true := ident_numCh b (digit_identChar b h)

theorem mem_take_add {α} (s : List α) (i j : Nat) (b : α) (h : b ∈ s.take (i + j)) :
    b ∈ s.take i ∨ b ∈ (s.drop i).take j := by
  rw [List.take_add] at h; simpa using h

theorem span_bytes (p : UInt8 → Bool) (hp : ∀ b, p b = true → numCh b = true) (s : Bytes) :
    ∀ b ∈ s.take (spanLen p s), numCh b = true := fun b hb => hp b (spanLen_take_all p s b hb)

theorem expLen_bytes (z : Bytes) : ∀ b ∈ z.take (expLen z), numCh b = true := by
  match z with
  | [] => simp
  | [e] => rw [expLen_single]; simp
  | e :: m :: r =>
    by_cases he : e = 101 ∨ e = 69
    · have hen : numCh e = true := by rcases he with rfl | rfl <;> decide
      by_cases hm : m = 45
      · subst hm
        rw [expLen_cons_minus e r he]
        split
        · simp
        · intro b hb
          rw [show 2 + spanLen isDigit r = spanLen isDigit r + 1 + 1 by omega] at hb
          simp only [List.take_succ_cons, List.mem_cons] at hb
          rcases hb with rfl | rfl | hb
          · exact hen
          · decide
          · exact span_bytes _ digit_numCh r b hb
      · rw [expLen_cons_other e m r he hm]
        split
        · simp
        · intro b hb
          rw [show 1 + spanLen isDigit (m :: r) = spanLen isDigit (m :: r) + 1 by omega] at hb
          simp only [List.take_succ_cons, List.mem_cons] at hb
          rcases hb with rfl | hb
          · exact hen
          · exact span_bytes _ digit_numCh (m :: r) b hb
    · rw [expLen_cons_not _ _ he]; simp

theorem fracLen_bytes (z : Bytes) : ∀ b ∈ z.take (fracLen z), numCh b = true := by
  cases z with
  | nil => simp
  | cons d r =>
    simp only [fracLen]
    split
    · rename_i hc
      intro b hb
      rw [show 1 + spanLen isDigit r = spanLen isDigit r + 1 by omega] at hb
      simp only [List.take_succ_cons, List.mem_cons] at hb
      rcases hb with rfl | hb
      · rw [hc.1]; decide
      · exact span_bytes _ digit_numCh r b hb
    · simp

theorem radTail_bytes (dig : UInt8 → Bool) (hdig : ∀ b, dig b = true → numCh b = true) (z : Bytes) :
    ∀ b ∈ z.take (radTail dig z), numCh b = true := by
  cases z with
  | nil => simp
  | cons d r =>
    simp only [radTail]
    split
    · rename_i hc
      intro b hb
      rw [show 1 + spanLen dig r = spanLen dig r + 1 by omega] at hb
      simp only [List.take_succ_cons, List.mem_cons] at hb
      rcases hb with rfl | hb
      · rw [hc.1]; decide
      · exact span_bytes _ hdig r b hb
    · simp

theorem mDecimal_bytes (s : Bytes) (k : Nat) (h : mDecimal s = some k) : ∀ b ∈ s.take k, numCh b = true := by
  rw [mDecimal_eq] at h
  split at h
  · cases h
  · simp only [Option.some.injEq] at h
    subst h
    intro b hb
    rcases mem_take_add _ _ _ _ hb with hb | hb
    · rcases mem_take_add _ _ _ _ hb with hb | hb
      · exact span_bytes _ digit_numCh s b hb
      · exact fracLen_bytes _ b hb
    · rw [← List.drop_drop] at hb
      exact expLen_bytes _ b hb

theorem mDotDecimal_bytes (s : Bytes) (k : Nat) (h : mDotDecimal s = some k) : ∀ b ∈ s.take k, numCh b = true := by
  cases s with
  | nil => simp [mDotDecimal] at h
  | cons d rest =>
    rw [mDotDecimal_cons] at h
    split at h
    · rename_i hd
      split at h
      · cases h
      · simp only [Option.some.injEq] at h
        subst h
        intro b hb
        rw [show 1 + spanLen isDigit rest + expLen (rest.drop (spanLen isDigit rest)) =
          (spanLen isDigit rest + expLen (rest.drop (spanLen isDigit rest))) + 1 by omega] at hb
        simp only [List.take_succ_cons, List.mem_cons] at hb
        rcases hb with rfl | hb
        · rw [hd]; decide
        · rcases mem_take_add _ _ _ _ hb with hb | hb
          · exact span_bytes _ digit_numCh rest b hb
          · exact expLen_bytes _ b hb
    · cases h

theorem mRadix_bytes (p1 p2 : UInt8) (dig : UInt8 → Bool) (hdig : ∀ b, dig b = true → numCh b = true)
    (h1 : numCh p1 = true) (h2 : numCh p2 = true) (s : Bytes) (k : Nat) (h : mRadix p1 p2 dig s = some k) :
    ∀ b ∈ s.take k, numCh b = true := by
  obtain ⟨x, rest, rfl, hx, -, rfl⟩ := mRadix_some p1 p2 dig s k h
  intro b hb
  rw [show 2 + spanLen dig rest + radTail dig (rest.drop (spanLen dig rest)) =
    (spanLen dig rest + radTail dig (rest.drop (spanLen dig rest))) + 1 + 1 by omega] at hb
  simp only [List.take_succ_cons, List.mem_cons] at hb
  rcases hb with rfl | rfl | hb
  · decide
  · rcases hx with rfl | rfl <;> assumption
  · rcases mem_take_add _ _ _ _ hb with hb | hb
    · exact span_bytes _ hdig rest b hb
    · exact radTail_bytes dig hdig _ b hb

theorem mRadixFrac_bytes (p1 p2 : UInt8) (dig : UInt8 → Bool) (hdig : ∀ b, dig b = true → numCh b = true)
    (h1 : numCh p1 = true) (h2 : numCh p2 = true) (s : Bytes) (k : Nat) (h : mRadixFrac p1 p2 dig s = some k) :
    ∀ b ∈ s.take k, numCh b = true := by
  obtain ⟨x, rest, rfl, hx, -, rfl⟩ := mRadixFrac_some p1 p2 dig s k h
  intro b hb
  rw [show 3 + spanLen dig rest = spanLen dig rest + 1 + 1 + 1 by omega] at hb
  simp only [List.take_succ_cons, List.mem_cons] at hb
  rcases hb with rfl | rfl | rfl | hb
  · decide
  · rcases hx with rfl | rfl <;> assumption
  · decide
  · exact span_bytes _ hdig rest b hb

/-- every byte of a numeral is a letter, a digit, `_`, `.` or `-` -/
theorem num_bytes (n : Bytes) (hn : NumOK n) : ∀ b ∈ n, numCh b = true := by
  obtain ⟨-, r, hm⟩ := hn
  obtain ⟨-, hnum⟩ := matchOne_number_inv _ _ hm
  have hmem := firstSome_kind _ _ _ hnum
  have htake : (n ++ r).take n.length = n := by simp
  have hex := fun b h => ident_numCh b (hex_ident b h)
  have hbin := fun b h => ident_numCh b (bin_ident b h)
  simp only [candsNum, List.mem_cons, Prod.mk.injEq, true_and, List.not_mem_nil, or_false] at hmem
  rw [← htake]
  rcases hmem with h | h | h | h | h | h
  · exact mRadix_bytes _ _ _ hex (by decide) (by decide) _ _ h.symm
  · exact mRadixFrac_bytes _ _ _ hex (by decide) (by decide) _ _ h.symm
  · exact mRadix_bytes _ _ _ hbin (by decide) (by decide) _ _ h.symm
  · exact mRadixFrac_bytes _ _ _ hbin (by decide) (by decide) _ _ h.symm
  · exact mDecimal_bytes _ _ h.symm
  · exact mDotDecimal_bytes _ _ h.symm

/-! ### symbols and numerals written back to back -/

theorem longest_le_aux (set : List Bytes) (s : Bytes) (k b : Nat) (hb : b ≤ k)
    (h : ∀ l ∈ set, l.isPrefixOf s = true → l.length ≤ k) :
    set.foldl (fun best l => if l.isPrefixOf s ∧ l.length > best then l.length else best) b ≤ k := by
  induction set generalizing b with
  | nil => simpa
  | cons a rest ih =>
    simp only [List.foldl_cons]
    apply ih
    · split
      · rename_i hc; exact h a (by simp) hc.1
      · exact hb
    · intro l hl; exact h l (by simp [hl])

theorem longest_le (set : List Bytes) (s : Bytes) (k : Nat)
    (h : ∀ l ∈ set, l.isPrefixOf s = true → l.length ≤ k) : Spec.Lex.longestPrefixIn set s ≤ k :=
  longest_le_aux set s k 0 (Nat.zero_le _) h

theorem num_prefix_wordLike (n m : Bytes) (hn : NumOK n) : wordLikeL (n ++ m) = true := by
  obtain ⟨h, t, rfl, hh⟩ := num_head2 n hn
  rcases hh with hh | ⟨rfl, d, t', rfl, hd⟩
  · simp [wordLikeL, digit_identChar h hh]
  · simp [wordLikeL, hd]

theorem num_wordLike (n : Bytes) (hn : NumOK n) : wordLikeL n = true := by
  have := num_prefix_wordLike n [] hn
  simpa using this

theorem num_num_safe (a b : Bytes) (ha : NumOK a) (hb : NumOK b) : fusable a b = false := by
  simp [fusable, num_wordLike a ha, num_wordLike b hb]

theorem dd_facts (h : UInt8) (hh : isDigit h = true ∨ h = 46) : h ≠ 47 ∧ h ≠ 58 ∧ h ≠ 61 := by
  rcases hh with hh | rfl
  · refine ⟨?_, ?_, ?_⟩ <;> (rintro rfl; exact absurd hh (by decide))
  · decide

theorem num_last (n : Bytes) (hn : NumOK n) (l : UInt8) (hl : n.getLast? = some l) : numCh l = true := by
  obtain ⟨ys, rfl⟩ := List.getLast?_eq_some_iff.mp hl
  exact num_bytes _ hn l (by simp)

/-- a numeral followed by a symbol never fuses (a symbol that starts with `.` is kept apart by `needsSpace`) -/
theorem num_sym_safe (n d : Bytes) (hn : NumOK n) (hd : d ∈ symLits) : fusable n d = false := by
  obtain ⟨x, d', rfl, -⟩ := symLit_head d hd
  by_cases hx : x = 46
  · subst hx; simp [fusable, num_needsSpace n (46 :: d') hn rfl]
  · have h1 : decide (Spec.Lex.longestPrefixIn Spec.Lex.symbolSet (n ++ x :: d') > n.length) = false := by
      simp only [decide_eq_false_iff_not, Nat.not_lt]
      apply longest_le
      intro l hl hp
      apply Classical.byContradiction
      intro hlen
      have hpre : n <+: l :=
        List.prefix_of_prefix_length_le (List.prefix_append n _) (List.isPrefixOf_iff_prefix.mp hp) (by omega)
      obtain ⟨m, rfl⟩ := hpre
      have hw := num_prefix_wordLike n m hn
      have hnw := symLits_not_wordLike
      rw [List.all_eq_true] at hnw
      have := hnw _ hl
      simp [hw] at this
    obtain ⟨h, t, rfl, hh⟩ := num_head2 n hn
    have hh' : isDigit h = true ∨ h = 46 := by
      rcases hh with hh | ⟨rfl, -⟩
      · exact Or.inl hh
      · exact Or.inr rfl
    obtain ⟨f47, -, -⟩ := dd_facts h hh'
    have h2 : ((h :: t) == [46]) = false := by
      rcases hh with hh | ⟨rfl, dg, t', rfl, hdg⟩
      · have : h ≠ 46 := by rintro rfl; exact absurd hh (by decide)
        simp [this]
      · simp
    have h3 : [47, 47].isPrefixOf (h :: t ++ x :: d') = false := by
      simp [List.isPrefixOf, Ne.symm f47]
    have h4 : ((h :: t).getLast? == some 58) = false := by
      cases hl : (h :: t).getLast? with
      | none => rfl
      | some l =>
        have := num_last _ hn l hl
        have : l ≠ 58 := by rintro rfl; exact absurd this (by decide)
        simp [this]
    have h5 : ((h :: t).getLast? == some 91) = false := by
      cases hl : (h :: t).getLast? with
      | none => rfl
      | some l =>
        have := num_last _ hn l hl
        have : l ≠ 91 := by rintro rfl; exact absurd this (by decide)
        simp [this]
    unfold fusable
    rw [h1, h2, h3, h4, h5]
    simp

/-- what a symbol must satisfy for never fusing with a numeral written after it -/
def symNumOK (d : Bytes) : Bool :=
  d != [46] && symLits.all fun l => !(d.isPrefixOf l) ||
    (match (l.drop d.length).head? with
     | none => true
     | some c => !isDigit c && (c != 46 || d.getLast? == some 46))

theorem sym_num_safe (d n : Bytes) (hd : d ∈ symLits) (hn : NumOK n) (hok : symNumOK d = true) :
    fusable d n = false := by
  obtain ⟨x, d', rfl, -⟩ := symLit_head d hd
  obtain ⟨h, t, rfl, hh⟩ := num_head2 n hn
  have hh' : isDigit h = true ∨ h = 46 := by
    rcases hh with hh | ⟨rfl, -⟩
    · exact Or.inl hh
    · exact Or.inr rfl
  obtain ⟨f47, f58, f61⟩ := dd_facts h hh'
  simp only [symNumOK, Bool.and_eq_true, bne_iff_ne, ne_eq, List.all_eq_true] at hok
  obtain ⟨hne, hall⟩ := hok
  cases hns : needsSpace (x :: d') (h :: t) with
  | true => simp [fusable, hns]
  | false =>
    have h1 : decide (Spec.Lex.longestPrefixIn Spec.Lex.symbolSet (x :: d' ++ h :: t) > (x :: d').length) = false := by
      simp only [decide_eq_false_iff_not, Nat.not_lt]
      apply longest_le
      intro l hl hp
      apply Classical.byContradiction
      intro hlen
      have hpre : (x :: d') <+: l :=
        List.prefix_of_prefix_length_le (List.prefix_append _ _) (List.isPrefixOf_iff_prefix.mp hp) (by omega)
      obtain ⟨m, rfl⟩ := hpre
      have hm : m <+: h :: t := (List.prefix_append_right_inj _).mp (List.isPrefixOf_iff_prefix.mp hp)
      have hmne : m ≠ [] := by rintro rfl; simp at hlen
      obtain ⟨c, m', rfl⟩ := List.exists_cons_of_ne_nil hmne
      have hc : c = h := by
        obtain ⟨r, hr⟩ := hm
        simp at hr; exact hr.1
      subst hc
      have := hall _ hl
      simp only [List.drop_left, List.head?_cons, Bool.or_eq_true, Bool.not_eq_true', Bool.and_eq_true,
        bne_iff_ne, ne_eq, beq_iff_eq] at this
      rcases this with hnp | ⟨hnd, h46⟩
      · have : (x :: d').isPrefixOf (x :: d' ++ c :: m') = true := List.isPrefixOf_iff_prefix.mpr (List.prefix_append _ _)
        rw [this] at hnp; cases hnp
      · rcases hh' with hdg | rfl
        · rw [hdg] at hnd; cases hnd
        · rcases h46 with h46 | h46
          · exact h46 rfl
          · have := needsSpace_true (x :: d') (46 :: t) 46 46 h46 rfl (Or.inr (Or.inr ⟨rfl, rfl⟩))
            rw [this] at hns; cases hns
    have h2 : ((x :: d') == [46]) = false := by simpa using hne
    have h3 : ([47, 47].isPrefixOf (x :: d' ++ h :: t) && decide ((x :: d').length < 2)) = false := by
      cases d' with
      | nil => simp [List.isPrefixOf, Ne.symm f47]
      | cons y d'' => simp
    have h4 : ((h :: t).head? == some 58) = false := by simp [f58]
    have h5 : ((h :: t).head? == some 61) = false := by simp [f61]
    unfold fusable
    rw [h1, h2, h3, h4, h5]
    simp

/-! ### pattern pairs -/

def patSym : Pat → Option Bytes
  | .exact k d => if k == .symbol then some d else none
  | .kind _ => none

def patNum : Pat → Bool
  | .kind k => k == .number
  | .exact _ _ => false

/-- the pattern only matches tokens that are neither symbols nor numbers -/
def patOther : Pat → Bool
  | .kind k => k != .symbol && k != .number
  | .exact k _ => k != .symbol && k != .number

/-- a pair of patterns whose tokens never fuse when they are a symbol/number each: `true` when one of them matches no
symbol or number; two literal symbols: not `fusable`; a literal symbol before any number: `symNumOK`; any number before
a literal symbol or a number: always; anything else (`kind symbol`, `exact number _`): `false` -/
def pairSafe (p q : Pat) : Bool :=
  patOther p || patOther q ||
  (match patSym p, patSym q with
   | some d, some d' => !fusable d d'
   | some d, none => patNum q && symNumOK d
   | none, some _ => patNum p
   | none, none => patNum p && patNum q)

theorem pat_cases (p : Pat) (a : Tok) (hm : p.matches a = true) (hs : a.kind = .symbol ∨ a.kind = .number) :
    patOther p = false ∧
      ((a.kind = .symbol ∧ (patSym p = some a.data ∨ (patSym p = none ∧ patNum p = false))) ∨
       (a.kind = .number ∧ patSym p = none)) := by
  cases p with
  | kind k =>
    simp only [Pat.matches, beq_iff_eq] at hm
    subst hm
    rcases hs with hs | hs <;> simp [patOther, patSym, patNum, hs]
  | exact k d =>
    simp only [Pat.matches, Bool.and_eq_true, beq_iff_eq] at hm
    obtain ⟨rfl, rfl⟩ := hm
    rcases hs with hs | hs <;> simp [patOther, patSym, patNum, hs]

theorem pairSafe_sound (p q : Pat) (a b : Tok) (hpa : p.matches a = true) (hqb : q.matches b = true)
    (hsa : a.kind = .symbol ∨ a.kind = .number) (hsb : b.kind = .symbol ∨ b.kind = .number)
    (hwa : WF a) (hwb : WF b) (h : pairSafe p q = true) : fusable a.data b.data = false := by
  obtain ⟨hpo, hpc⟩ := pat_cases p a hpa hsa
  obtain ⟨hqo, hqc⟩ := pat_cases q b hqb hsb
  simp only [pairSafe, hpo, hqo, Bool.false_or] at h
  rcases hpc with ⟨hka, hp1 | ⟨hp1, hp2⟩⟩ | ⟨hka, hp1⟩ <;>
  rcases hqc with ⟨hkb, hq1 | ⟨hq1, hq2⟩⟩ | ⟨hkb, hq1⟩ <;>
  simp only [hp1, hq1] at h
  · simpa using h
  · simp [hq2] at h
  · simp only [Bool.and_eq_true] at h
    exact sym_num_safe _ _ (hwa.symbol hka) (hwb.number hkb) h.2
  · simp [hp2] at h
  · simp [hp2] at h
  · simp [hp2] at h
  · exact num_sym_safe _ _ (hwa.number hka) (hwb.symbol hkb)
  · simp [hq2] at h
  · exact num_num_safe _ _ (hwa.number hka) (hwb.number hkb)

/-- every pair of the adjacency mask lies inside the table and is `pairSafe` -/
def tableOK (cls : List Pat) (adj : Nat) : Bool :=
  (List.range (cls.length + 1)).all fun i => (List.range (cls.length + 1)).all fun j =>
    !adj.testBit (i * (cls.length + 1) + j) ||
      (match cls[i]?, cls[j]? with
       | some p, some q => pairSafe p q
       | _, _ => false)

theorem tableOK_sound (cls : List Pat) (adj : Nat) (p q : Pat) (h : tableOK cls adj = true)
    (hbit : adj.testBit (idx cls p * (cls.length + 1) + idx cls q) = true) : pairSafe p q = true := by
  simp only [tableOK, List.all_eq_true, List.mem_range] at h
  have := h (idx cls p) (by have := idx_le cls p; omega) (idx cls q) (by have := idx_le cls q; omega)
  simp only [hbit, Bool.not_true, Bool.false_or] at this
  by_cases hp : idx cls p < cls.length
  · by_cases hq : idx cls q < cls.length
    · simpa [idx_get cls p hp, idx_get cls q hq] using this
    · have e : cls[idx cls q]? = none := by simp; omega
      rw [e] at this; split at this <;> simp_all
  · have e : cls[idx cls p]? = none := by simp; omega
    rw [e] at this; split at this <;> simp_all

end Pico.C01A
