import PicoVerif.Lemmas.Basic
import PicoVerif.Model.Sections
import PicoVerif.Model.P8Png
import PicoVerif.Spec.Formats
/-! Helper lemmas for C16 (model codecs = `Spec.Formats`). -/
namespace Pico.C16L
open Pico.Sections Pico.P8Png Pico.P8File

/-! ### gfx -/

theorem swapNibbles_hi (b : UInt8) : (swapNibbles b).toNat / 16 = b.toNat % 16 := by
  have := forall_u8 (fun b => (swapNibbles b).toNat / 16 == b.toNat % 16) (by decide +kernel) b
  simpa using this

theorem swapNibbles_lo (b : UInt8) : (swapNibbles b).toNat % 16 = b.toNat / 16 := by
  have := forall_u8 (fun b => (swapNibbles b).toNat % 16 == b.toNat / 16) (by decide +kernel) b
  simpa using this

/-- one row of the model in terms of the row's bytes -/
theorem gfx_row_model (row : Bytes) :
    toHex (row.map swapNibbles) =
      row.flatMap (fun b => [hexDigit (b.toNat % 16), hexDigit (b.toNat / 16)]) := by
  rw [toHex_eq_flatMap, List.flatMap_map]
  simp only [swapNibbles_hi, swapNibbles_lo]

/-- one row of the Spec in terms of the row's bytes -/
theorem gfx_row_spec (m : Bytes) (y : Nat) :
    (List.range 128).map (fun x => hexDigit (Spec.pixel m x y)) =
      ((List.range 64).map (fun i => m.getD (64 * y + i) 0)).flatMap
        (fun b => [hexDigit (b.toNat % 16), hexDigit (b.toNat / 16)]) := by
  rw [show (128 : Nat) = 2 * 64 by rfl, map_range_two_mul, List.flatMap_map]
  apply flatMap_range_congr
  intro i _
  simp only [Spec.pixel]
  rw [show 2 * i / 2 = i by omega, show (2 * i + 1) / 2 = i by omega]
  rw [if_pos (by omega), if_neg (by omega)]

theorem gfx_lines (m : Bytes) (h : m.length = 0x2000) : gfxToLines m = Spec.gfxRows m := by
  unfold gfxToLines Spec.gfxRows
  rw [show Gen.hexLineLenGfx = 64 by rfl, chunks_eq 64 128 (by omega) m (by omega), List.map_map]
  apply map_range_congr
  intro y hy
  simp only [Function.comp_def]
  rw [gfx_row_model, gfx_row_spec, slice_eq_map_range m (64 * y) 64 0 (by omega)]
  rfl

theorem swapPairs_gfx_row (row : Bytes) : swapPairs (toHex (row.map swapNibbles)) = toHex row := by
  induction row with
  | nil => rfl
  | cons b bs ih =>
    simp only [List.map_cons, toHex, swapPairs, ih, swapNibbles_hi, swapNibbles_lo]

theorem gfxLine_enc (row : Bytes) (h : row.length = 64) :
    gfxLine (toHex (row.map swapNibbles) ++ [LF]) = .ok (some row) := by
  have hlen : (toHex (row.map swapNibbles)).length = 128 := by simp [toHex_length, h]
  unfold gfxLine
  rw [if_neg (by simp [hlen])]
  simp only [LF, rstrip_toHex_lf, hlen]
  rw [if_neg (by omega), if_neg (by simp)]
  simp only [swapPairs_gfx_row, fromHex_toHex]

theorem gfxFromLines_enc (rows : List Bytes) (h : ∀ r ∈ rows, r.length = 64) :
    gfxFromLines (rows.map fun row => toHex (row.map swapNibbles) ++ [LF]) = .ok rows.flatten := by
  induction rows with
  | nil => rfl
  | cons r rs ih =>
    have ih' := ih (fun x hx => h x (List.mem_cons_of_mem _ hx))
    simp only [List.map_cons, gfxFromLines, gfxLine_enc r (h r List.mem_cons_self), ih']
    rfl

theorem gfx_read (m : Bytes) (h : m.length = 0x2000) : gfxFromLines (Spec.gfxRows m) = .ok m := by
  rw [← gfx_lines m h]
  unfold gfxToLines
  rw [show Gen.hexLineLenGfx = 64 by rfl,
    gfxFromLines_enc _ (chunks_length_of_mem 64 128 (by omega) m (by omega)), chunks_flatten 64 (by omega)]

/-! ### plain hex rows -/

theorem hex_rows (n : Nat) (hn : 0 < n) (m : Bytes) (rows : Nat) (h : m.length = n * rows) :
    hexToLines n m = Spec.hexRows n rows m := by
  unfold hexToLines Spec.hexRows
  rw [chunks_eq n rows hn m h, List.map_map]
  apply map_range_congr
  intro r hr
  have : n * r + n ≤ m.length := by
    rw [h]
    calc n * r + n = n * (r + 1) := by rw [Nat.mul_succ]
      _ ≤ n * rows := Nat.mul_le_mul_left n hr
  simp only [Function.comp_def]
  rw [toHex_eq_flatMap, slice_eq_map_range m (n * r) n 0 this, List.flatMap_map]
  rfl

theorem hexFromLines_enc (rows : List Bytes) :
    hexFromLines (rows.map fun row => toHex row ++ [LF]) = .ok rows.flatten := by
  induction rows with
  | nil => rfl
  | cons r rs ih =>
    simp only [List.map_cons, hexFromLines, LF, rstrip_toHex_lf, fromHex_toHex]
    simp only [LF] at ih
    rw [ih]
    rfl

theorem hex_read (n : Nat) (hn : 0 < n) (m : Bytes) (rows : Nat) (h : m.length = n * rows) :
    hexFromLines (Spec.hexRows n rows m) = .ok m := by
  rw [← hex_rows n hn m rows h]
  unfold hexToLines
  rw [hexFromLines_enc, chunks_flatten n hn]

/-! ### sfx notes -/

theorem noteText_eq (lsb msb : UInt8) : noteText lsb msb =
  [hexDigit ((lsb &&& 0x3f).toNat / 16), hexDigit ((lsb &&& 0x3f).toNat % 16),
   hexDigit ((((((msb &&& 0x80) >>> 4) ||| ((msb &&& 0x01) <<< 2) ||| ((lsb &&& 0xc0) >>> 6)) <<< 4) ||| ((msb &&& 0x0e) >>> 1)).toNat / 16),
   hexDigit ((((((msb &&& 0x80) >>> 4) ||| ((msb &&& 0x01) <<< 2) ||| ((lsb &&& 0xc0) >>> 6)) <<< 4) ||| ((msb &&& 0x0e) >>> 1)).toNat % 16),
   hexDigit (((msb &&& 0x70) >>> 4).toNat % 16)] := rfl

theorem pitch_toNat (b : UInt8) : (b &&& 0x3f).toNat = b.toNat % 64 := by
  have := forall_u8 (fun b => (b &&& 0x3f).toNat == b.toNat % 64) (by decide +kernel) b
  simpa using this

theorem wlow_toNat (b : UInt8) : ((b &&& 0xc0) >>> 6).toNat = b.toNat / 64 := by
  have := forall_u8 (fun b => ((b &&& 0xc0) >>> 6).toNat == b.toNat / 64) (by decide +kernel) b
  simpa using this

theorem whigh_toNat (b : UInt8) :
    (((b &&& 0x80) >>> 4) ||| ((b &&& 0x01) <<< 2)).toNat = 4 * (b.toNat % 2) + 8 * (b.toNat / 128) := by
  have := forall_u8 (fun b => (((b &&& 0x80) >>> 4) ||| ((b &&& 0x01) <<< 2)).toNat
    == 4 * (b.toNat % 2) + 8 * (b.toNat / 128)) (by decide +kernel) b
  simpa using this

theorem vol_toNat (b : UInt8) : ((b &&& 0x0e) >>> 1).toNat = b.toNat / 2 % 8 := by
  have := forall_u8 (fun b => ((b &&& 0x0e) >>> 1).toNat == b.toNat / 2 % 8) (by decide +kernel) b
  simpa using this

theorem eff_toNat (b : UInt8) : ((b &&& 0x70) >>> 4).toNat = b.toNat / 16 % 8 := by
  have := forall_u8 (fun b => ((b &&& 0x70) >>> 4).toNat == b.toNat / 16 % 8) (by decide +kernel) b
  simpa using this

theorem wv_small : ∀ i, i < 4 → ∀ j, j < 4 → ∀ k, k < 8 →
    (((((4 * i).toUInt8 ||| j.toUInt8) <<< (4 : UInt8)) ||| k.toUInt8 : UInt8)).toNat = 16 * (4 * i + j) + k := by
  have := all_range (n := 4) (p := fun i => (List.range 4).all fun j => (List.range 8).all fun k =>
    (((((4 * i).toUInt8 ||| j.toUInt8) <<< (4 : UInt8)) ||| k.toUInt8 : UInt8)).toNat == 16 * (4 * i + j) + k) (by decide +kernel)
  intro i hi j hj k hk
  have h1 := all_range (this i hi) j hj
  have h2 := all_range h1 k hk
  simpa using h2

theorem wv_toNat (a b v : UInt8) (ha : a.toNat % 4 = 0) (ha' : a.toNat < 16) (hb : b.toNat < 4)
    (hv : v.toNat < 8) : (((a ||| b) <<< (4 : UInt8)) ||| v).toNat = 16 * (a.toNat + b.toNat) + v.toNat := by
  have := wv_small (a.toNat / 4) (by omega) b.toNat hb v.toNat hv
  rw [show 4 * (a.toNat / 4) = a.toNat by omega] at this
  simpa using this

theorem sfx_note (lsb msb : UInt8) :
    noteText lsb msb = Spec.noteText (lsb.toNat + 256 * msb.toNat) := by
  have hl := lsb.toNat_lt
  have hm := msb.toNat_lt
  rw [noteText_eq, wv_toNat _ _ _ (by rw [whigh_toNat]; omega) (by rw [whigh_toNat]; omega)
    (by rw [wlow_toNat]; omega) (by rw [vol_toNat]; omega),
    pitch_toNat, wlow_toNat, whigh_toNat, vol_toNat, eff_toNat]
  simp only [Spec.noteText, Spec.notePitch, Spec.noteWaveform, Spec.noteVolume, Spec.noteEffect,
    List.cons.injEq, and_true]
  have e1 : (lsb.toNat + 256 * msb.toNat) / 64 = lsb.toNat / 64 + 4 * msb.toNat := by omega
  have e2 : (lsb.toNat + 256 * msb.toNat) / 32768 = msb.toNat / 128 := by omega
  have e3 : (lsb.toNat + 256 * msb.toNat) / 512 = msb.toNat / 2 := by omega
  have e4 : (lsb.toNat + 256 * msb.toNat) / 4096 = msb.toNat / 16 := by omega
  have e5 : (lsb.toNat + 256 * msb.toNat) % 64 = lsb.toNat % 64 := by omega
  rw [e1, e2, e3, e4, e5]
  generalize hx : 4 * (msb.toNat % 2) + 8 * (msb.toNat / 128) + lsb.toNat / 64 = x
  generalize hv : msb.toNat / 2 % 8 = v
  have hv8 : v < 8 := by omega
  have e6 : (16 * x + v) / 16 = x := by omega
  have e7 : (16 * x + v) % 16 = v := by omega
  rw [e6, e7]
  refine ⟨rfl, rfl, congrArg _ ?_, rfl, congrArg _ ?_⟩ <;> omega

/-! ### sfx lines -/

theorem notesText_flatMap (l : List γ) (f g : γ → UInt8) :
    notesText (l.flatMap fun x => [f x, g x]) = l.flatMap fun x => noteText (f x) (g x) := by
  induction l with
  | nil => rfl
  | cons x xs ih => simp [notesText, ih]

theorem sfxPatternLine_slice (m : Bytes) (id : Nat) (h : 68 * id + 68 ≤ m.length) :
    sfxPatternLine ((m.drop (68 * id)).take 68) = Spec.sfxRow m id := by
  have hd : ((m.drop (68 * id)).take 68).drop 64 =
      (List.range 4).map (fun k => m.getD (68 * id + (64 + k)) 0) := by
    rw [List.drop_take, List.drop_drop]
    have := slice_eq_map_range m (68 * id + 64) 4 0 (by omega)
    simpa [Nat.add_assoc] using this
  have ht : ((m.drop (68 * id)).take 68).take 64 =
      (List.range 32).flatMap (fun n => [m.getD (68 * id + 2 * n) 0, m.getD (68 * id + (2 * n + 1)) 0]) := by
    rw [List.take_take, show min 64 68 = 64 by rfl, slice_eq_map_range m (68 * id) 64 0 (by omega),
      show (64 : Nat) = 2 * 32 by rfl, map_range_two_mul]
  unfold sfxPatternLine Spec.sfxRow
  rw [hd, ht, toHex_eq_flatMap, List.flatMap_map, notesText_flatMap]
  simp only [sfx_note]
  rfl

theorem sfxRows_eq (m : Bytes) (h : m.length = 0x1100) :
    Spec.sfxRows m = (chunks 68 m).map sfxPatternLine := by
  unfold Spec.sfxRows
  rw [chunks_eq 68 64 (by omega) m (by omega), List.map_map]
  apply map_range_congr
  intro id hid
  exact (sfxPatternLine_slice m id (by omega)).symm

theorem sfx_lines (m : Bytes) (h : m.length = 0x1100) : sfxToLines m = some (Spec.sfxRows m) := by
  unfold sfxToLines
  rw [if_neg (by omega), List.take_of_length_le (by omega), sfxRows_eq m h]

/-! ### sfx reading -/

theorem hexInt_one (a : Nat) (ha : a < 16) : hexInt [hexDigit a] = some a := by
  simp [hexInt, List.foldlM, unhex_hexDigit a ha]

theorem hexInt_two (a b : Nat) (ha : a < 16) (hb : b < 16) :
    hexInt [hexDigit a, hexDigit b] = some (a * 16 + b) := by
  simp [hexInt, List.foldlM, unhex_hexDigit a ha, unhex_hexDigit b hb]

def setLsb (p w : Nat) : UInt8 :=
  (((0 &&& 0xc0) ||| p.toUInt8) &&& 0x3f) ||| ((w.toUInt8 &&& 3) <<< (6 : UInt8))

def setMsb (w v e : Nat) : UInt8 :=
  ((((((0 &&& 0x7e) ||| ((w.toUInt8 &&& 4) >>> (2 : UInt8)) ||| ((w.toUInt8 &&& 8) <<< (4 : UInt8))) &&& 0xf1)
    ||| (v.toUInt8 <<< (1 : UInt8))) &&& 0x8f) ||| (e.toUInt8 <<< (4 : UInt8)))

theorem setNote_eq (p w v e : Nat) (hp : p ≤ 63) (hw : w ≤ 15) (hv : v ≤ 7) (he : e ≤ 7) :
    setNote 0 0 p w v e = some (setLsb p w, setMsb w v e) := by
  unfold setNote
  rw [if_neg (by omega)]
  rfl

theorem setLsb_rt : ∀ lsb : UInt8, ∀ i, i < 4 →
    setLsb (lsb.toNat % 64) (lsb.toNat / 64 + 4 * i) = lsb := by
  have := forall_u8 (fun lsb => (List.range 4).all fun i =>
    setLsb (lsb.toNat % 64) (lsb.toNat / 64 + 4 * i) == lsb) (by decide +kernel)
  intro lsb i hi
  have h := all_range (this lsb) i hi
  simpa using h

theorem setMsb_rt : ∀ msb : UInt8, ∀ j, j < 4 →
    setMsb (j + 4 * (msb.toNat % 2) + 8 * (msb.toNat / 128)) (msb.toNat / 2 % 8) (msb.toNat / 16 % 8) = msb := by
  have := forall_u8 (fun msb => (List.range 4).all fun j =>
    setMsb (j + 4 * (msb.toNat % 2) + 8 * (msb.toNat / 128)) (msb.toNat / 2 % 8) (msb.toNat / 16 % 8) == msb)
    (by decide +kernel)
  intro msb j hj
  have h := all_range (this msb) j hj
  simpa using h

theorem parseNotes_step (n : Nat) (lsb msb : UInt8) (rest : Bytes) :
    parseNotes (n + 1) (noteText lsb msb ++ rest) =
      (do let r ← parseNotes n rest; pure (lsb :: msb :: r)) := by
  have hl := lsb.toNat_lt
  have hm := msb.toNat_lt
  rw [sfx_note]
  simp only [Spec.noteText, parseNotes, List.cons_append, List.nil_append, List.take, List.drop]
  have eP : Spec.notePitch (lsb.toNat + 256 * msb.toNat) = lsb.toNat % 64 := by
    unfold Spec.notePitch; omega
  have eW : Spec.noteWaveform (lsb.toNat + 256 * msb.toNat)
      = lsb.toNat / 64 + 4 * (msb.toNat % 2) + 8 * (msb.toNat / 128) := by
    unfold Spec.noteWaveform
    have e1 : (lsb.toNat + 256 * msb.toNat) / 64 = lsb.toNat / 64 + 4 * msb.toNat := by omega
    have e2 : (lsb.toNat + 256 * msb.toNat) / 32768 = msb.toNat / 128 := by omega
    rw [e1, e2]; omega
  have eV : Spec.noteVolume (lsb.toNat + 256 * msb.toNat) = msb.toNat / 2 % 8 := by
    unfold Spec.noteVolume
    have e3 : (lsb.toNat + 256 * msb.toNat) / 512 = msb.toNat / 2 := by omega
    rw [e3]
  have eE : Spec.noteEffect (lsb.toNat + 256 * msb.toNat) = msb.toNat / 16 % 8 := by
    unfold Spec.noteEffect
    have e4 : (lsb.toNat + 256 * msb.toNat) / 4096 = msb.toNat / 16 := by omega
    rw [e4]
  rw [eP, eW, eV, eE, hexInt_two _ _ (by omega) (by omega), hexInt_one _ (by omega),
    hexInt_one _ (by omega), hexInt_one _ (by omega)]
  simp only []
  rw [show lsb.toNat % 64 / 16 * 16 + lsb.toNat % 64 % 16 = lsb.toNat % 64 by omega,
    setNote_eq _ _ _ _ (by omega) (by omega) (by omega) (by omega)]
  have hL := setLsb_rt lsb (msb.toNat % 2 + 2 * (msb.toNat / 128)) (by omega)
  rw [show lsb.toNat / 64 + 4 * (msb.toNat % 2 + 2 * (msb.toNat / 128))
    = lsb.toNat / 64 + 4 * (msb.toNat % 2) + 8 * (msb.toNat / 128) by omega] at hL
  rw [hL, setMsb_rt msb (lsb.toNat / 64) (by omega)]

theorem parseNotes_notesText : ∀ (k : Nat) (l rest : Bytes), l.length = 2 * k →
    parseNotes k (notesText l ++ rest) = .ok l := by
  intro k
  induction k with
  | zero =>
    intro l rest h
    have : l = [] := List.length_eq_zero_iff.mp (by simpa using h)
    subst this; rfl
  | succ k ih =>
    intro l rest h
    match l, h with
    | a :: b :: t, h =>
      have ht : t.length = 2 * k := by simp at h; omega
      rw [notesText, List.append_assoc, parseNotes_step, ih t rest ht]
      rfl

theorem noteText_length (lsb msb : UInt8) : (noteText lsb msb).length = 5 := by
  rw [noteText_eq]; rfl

theorem notesText_length : ∀ (k : Nat) (l : Bytes), l.length = 2 * k → (notesText l).length = 5 * k := by
  intro k
  induction k with
  | zero =>
    intro l h
    have : l = [] := List.length_eq_zero_iff.mp (by simpa using h)
    subst this; rfl
  | succ k ih =>
    intro l h
    match l, h with
    | a :: b :: t, h =>
      have ht : t.length = 2 * k := by simp at h; omega
      rw [notesText, List.length_append, noteText_length, ih t ht]; omega

theorem sfxLine_enc (pat : Bytes) (h : pat.length = 68) : sfxLine (sfxPatternLine pat) = .ok (some pat) := by
  have hsplit : pat.take 64 ++ pat.drop 64 = pat := List.take_append_drop 64 pat
  have hnl : (pat.take 64).length = 2 * 32 := by simp [h]
  have hdl : (pat.drop 64).length = 4 := by simp [h]
  generalize hn : pat.take 64 = nts at hsplit hnl
  generalize hd : pat.drop 64 = hdr at hsplit hdl
  match hdr, hdl with
  | [a, b, c, d], _ =>
    have hlen : (notesText nts).length = 160 := notesText_length 32 nts hnl
    unfold sfxLine sfxPatternLine
    rw [hn, hd, if_neg (by simp [toHex_length, hlen])]
    simp only [toHex, List.cons_append, List.nil_append, List.take, List.drop]
    have ha := a.toNat_lt; have hb := b.toNat_lt; have hc := c.toNat_lt; have hd' := d.toNat_lt
    rw [hexInt_two _ _ (by omega) (by omega), hexInt_two _ _ (by omega) (by omega),
      hexInt_two _ _ (by omega) (by omega), hexInt_two _ _ (by omega) (by omega)]
    simp only []
    rw [parseNotes_notesText 32 nts [LF] hnl]
    rw [show a.toNat / 16 * 16 + a.toNat % 16 = a.toNat by omega,
      show b.toNat / 16 * 16 + b.toNat % 16 = b.toNat by omega,
      show c.toNat / 16 * 16 + c.toNat % 16 = c.toNat by omega,
      show d.toNat / 16 * 16 + d.toNat % 16 = d.toNat by omega]
    simp only [Nat.toUInt8_eq, UInt8.ofNat_toNat]
    rw [← hsplit]
    rfl

theorem sfxPatterns_enc (rows : List Bytes) (h : ∀ r ∈ rows, r.length = 68) :
    sfxPatterns (rows.map sfxPatternLine) = .ok rows := by
  induction rows with
  | nil => rfl
  | cons r rs ih =>
    have ih' := ih (fun x hx => h x (List.mem_cons_of_mem _ hx))
    simp only [List.map_cons, sfxPatterns, sfxLine_enc r (h r List.mem_cons_self), ih']
    rfl

theorem emptySfx_length : Gen.emptySfx.length = 4352 := by decide +kernel

theorem sfx_read (m : Bytes) (h : m.length = 0x1100) : sfxFromLines (Spec.sfxRows m) = .ok m := by
  rw [sfxRows_eq m h]
  unfold sfxFromLines
  rw [sfxPatterns_enc _ (chunks_length_of_mem 68 64 (by omega) m (by omega))]
  simp only [bind, Except.bind]
  rw [if_neg (by rw [chunks_length 68 64 (by omega) m (by omega)]; omega), chunks_flatten 68 (by omega),
    List.drop_of_length_le (by rw [emptySfx_length]; omega)]
  simp [pure, Except.pure]

/-! ### music -/

/-- bit 7 of a channel byte -/
def hiBit (c : UInt8) : UInt8 := (c &&& 128) >>> 7

theorem hiBit_toNat (c : UInt8) : (hiBit c).toNat = c.toNat / 128 := by
  have := forall_u8 (fun c => (hiBit c).toNat == c.toNat / 128) (by decide +kernel) c
  simpa using this

theorem hiBit_cases (c : UInt8) : hiBit c = 0 ∨ hiBit c = 1 := by
  have := forall_u8 (fun c => hiBit c == 0 || hiBit c == 1) (by decide +kernel) c
  simpa using this

theorem low7_toNat (c : UInt8) : (c &&& 127).toNat = c.toNat % 128 := by
  have := forall_u8 (fun c => (c &&& 127).toNat == c.toNat % 128) (by decide +kernel) c
  simpa using this

theorem low7_or_hiBit (c : UInt8) : (c &&& (127 : UInt8)) ||| (hiBit c <<< (7 : UInt8)) = c := by
  have := forall_u8 (fun (c : UInt8) => (c &&& (127 : UInt8)) ||| (hiBit c <<< (7 : UInt8)) == c) (by decide +kernel) c
  simpa using this

theorem flags_toNat (x y z : UInt8) (hx : x = 0 ∨ x = 1) (hy : y = 0 ∨ y = 1) (hz : z = 0 ∨ z = 1) :
    ((z <<< 2) ||| (y <<< 1) ||| x).toNat = x.toNat + 2 * y.toNat + 4 * z.toNat := by
  rcases hx with rfl | rfl <;> rcases hy with rfl | rfl <;> rcases hz with rfl | rfl <;> decide

theorem flags_bits (x y z : UInt8) (hx : x = 0 ∨ x = 1) (hy : y = 0 ∨ y = 1) (hz : z = 0 ∨ z = 1) :
    ((z <<< 2) ||| (y <<< 1) ||| x) &&& 1 = x ∧ (((z <<< 2) ||| (y <<< 1) ||| x) &&& 2) >>> 1 = y ∧
    (((z <<< 2) ||| (y <<< 1) ||| x) &&& 4) >>> 2 = z := by
  rcases hx with rfl | rfl <;> rcases hy with rfl | rfl <;> rcases hz with rfl | rfl <;> decide

/-- the model's line for one pattern -/
def musicEnc (c1 c2 c3 c4 : UInt8) : Bytes :=
  toHex [(hiBit c3 <<< 2) ||| (hiBit c2 <<< 1) ||| hiBit c1] ++ [32] ++
    toHex [c1 &&& 127, c2 &&& 127, c3 &&& 127, c4 &&& 127] ++ [LF]

theorem musicToLines_cons (c1 c2 c3 c4 : UInt8) (rest : Bytes) :
    musicToLines (c1 :: c2 :: c3 :: c4 :: rest) =
      (musicToLines rest).map fun t => musicEnc c1 c2 c3 c4 :: t := rfl

theorem musicRow_shift (a b c d : UInt8) (rest : Bytes) (i : Nat) :
    Spec.musicRow (a :: b :: c :: d :: rest) (i + 1) = Spec.musicRow rest i := by
  unfold Spec.musicRow
  simp only [show ∀ k, 4 * (i + 1) + k = 4 * i + k + 1 + 1 + 1 + 1 from fun k => by omega,
    List.getD_cons_succ]
  rfl

theorem musicRows_cons (a b c d : UInt8) (rest : Bytes) :
    Spec.musicRows (a :: b :: c :: d :: rest) =
      Spec.musicRow (a :: b :: c :: d :: rest) 0 :: Spec.musicRows rest := by
  unfold Spec.musicRows
  rw [show (a :: b :: c :: d :: rest).length / 4 = rest.length / 4 + 1 by simp; omega,
    List.range_succ_eq_map, List.map_cons, List.map_map]
  congr 1

theorem musicRow_zero (a b c d : UInt8) (rest : Bytes) :
    Spec.musicRow (a :: b :: c :: d :: rest) 0 = musicEnc a b c d := by
  have e : Spec.musicRow (a :: b :: c :: d :: rest) 0 =
    [hexDigit ((a.toNat / 128 + 2 * (b.toNat / 128) + 4 * (c.toNat / 128)) / 16),
     hexDigit ((a.toNat / 128 + 2 * (b.toNat / 128) + 4 * (c.toNat / 128)) % 16), 32,
     hexDigit (a.toNat % 128 / 16), hexDigit (a.toNat % 128 % 16),
     hexDigit (b.toNat % 128 / 16), hexDigit (b.toNat % 128 % 16),
     hexDigit (c.toNat % 128 / 16), hexDigit (c.toNat % 128 % 16),
     hexDigit (d.toNat % 128 / 16), hexDigit (d.toNat % 128 % 16), Spec.LF] := rfl
  rw [e]
  simp only [musicEnc, toHex, List.cons_append, List.nil_append,
    flags_toNat _ _ _ (hiBit_cases a) (hiBit_cases b) (hiBit_cases c), hiBit_toNat, low7_toNat]
  rfl

theorem music_lines : ∀ (m : Bytes), m.length % 4 = 0 → musicToLines m = some (Spec.musicRows m)
  | [], _ => rfl
  | [_], h => by simp at h
  | [_, _], h => by simp at h
  | [_, _, _], h => by simp at h
  | a :: b :: c :: d :: rest, h => by
    have ih := music_lines rest (by simp at h; omega)
    rw [musicToLines_cons, ih, musicRows_cons, musicRow_zero]
    rfl

/-! ### music reading -/

theorem hexByte0_enc (a : UInt8) :
    hexByte0 [hexDigit (a.toNat / 16), hexDigit (a.toNat % 16)] = .ok a := by
  have ha := a.toNat_lt
  unfold hexByte0
  simp only [unhex_hexDigit _ (show a.toNat / 16 < 16 by omega), unhex_hexDigit _ (show a.toNat % 16 < 16 by omega)]
  rw [show a.toNat / 16 * 16 + a.toNat % 16 = a.toNat by omega]
  simp

/-- the shape of `musicLine` on a 12-character line `ff cccccccc\n` -/
theorem musicLine_shape (h1 h2 x1 x2 x3 x4 x5 x6 x7 x8 : UInt8)
    (g1 : h1 ≠ 32) (g2 : h2 ≠ 32) (k1 : x1 ≠ 32) (k2 : x2 ≠ 32) (k3 : x3 ≠ 32) (k4 : x4 ≠ 32)
    (k5 : x5 ≠ 32) (k6 : x6 ≠ 32) (k7 : x7 ≠ 32) (k8 : x8 ≠ 32) :
    musicLine [h1, h2, 32, x1, x2, x3, x4, x5, x6, x7, x8, 10] =
      (match fromHex [h1, h2] with
      | none => .error .value
      | some [] => .error .index
      | some (flags :: _) => do
        let c1 ← hexByte0 [x1, x2]
        let c2 ← hexByte0 [x3, x4]
        let c3 ← hexByte0 [x5, x6]
        let c4 ← hexByte0 [x7, x8]
        pure (some [c1 ||| ((flags &&& 1) <<< 7), c2 ||| (((flags &&& 2) >>> 1) <<< 7),
          c3 ||| (((flags &&& 4) >>> 2) <<< 7), c4])) := by
  unfold musicLine
  simp [g1, g2, k1.symm, k2.symm, k3.symm, k4.symm, k5.symm, k6.symm, k7.symm, k8.symm, pySlice]
  rcases fromHex [h1, h2] with _ | _ | _ <;> rfl

theorem hexDigit_ne32 (n : Nat) (h : n < 16) : hexDigit n ≠ 32 :=
  ne32_of_isHexChar (hexDigit_isHexChar n h)

theorem musicLine_enc (fl a b c d : UInt8) :
    musicLine (toHex [fl] ++ [32] ++ toHex [a, b, c, d] ++ [LF]) =
      .ok (some [a ||| ((fl &&& 1) <<< 7), b ||| (((fl &&& 2) >>> 1) <<< 7),
        c ||| (((fl &&& 4) >>> 2) <<< 7), d]) := by
  have hf := fl.toNat_lt; have ha := a.toNat_lt; have hb := b.toNat_lt
  have hc := c.toNat_lt; have hd := d.toNat_lt
  have e : fromHex [hexDigit (fl.toNat / 16), hexDigit (fl.toNat % 16)] = some [fl] := fromHex_toHex [fl]
  simp only [toHex, List.cons_append, List.nil_append, LF]
  rw [musicLine_shape _ _ _ _ _ _ _ _ _ _
    (hexDigit_ne32 _ (by omega)) (hexDigit_ne32 _ (by omega)) (hexDigit_ne32 _ (by omega))
    (hexDigit_ne32 _ (by omega)) (hexDigit_ne32 _ (by omega)) (hexDigit_ne32 _ (by omega))
    (hexDigit_ne32 _ (by omega)) (hexDigit_ne32 _ (by omega)) (hexDigit_ne32 _ (by omega))
    (hexDigit_ne32 _ (by omega)), e]
  simp only [hexByte0_enc]
  rfl

theorem musicEnc_rt (c1 c2 c3 c4 : UInt8) :
    musicLine (musicEnc c1 c2 c3 c4) = .ok (some [c1, c2, c3, c4 &&& 127]) := by
  unfold musicEnc
  rw [musicLine_enc]
  obtain ⟨f1, f2, f3⟩ := flags_bits _ _ _ (hiBit_cases c1) (hiBit_cases c2) (hiBit_cases c3)
  rw [f1, f2, f3, low7_or_hiBit, low7_or_hiBit, low7_or_hiBit]

theorem music_read : ∀ (m : Bytes), m.length % 4 = 0 →
    musicFromLines (Spec.musicRows m) = .ok (musicNorm m)
  | [], _ => rfl
  | [_], h => by simp at h
  | [_, _], h => by simp at h
  | [_, _, _], h => by simp at h
  | a :: b :: c :: d :: rest, h => by
    have ih := music_read rest (by simp at h; omega)
    rw [musicRows_cons, musicRow_zero, musicFromLines, musicEnc_rt, ih]
    rfl

/-! ### png pixels -/

theorem low2_toNat (x : UInt8) : (x &&& 3).toNat = x.toNat % 4 := by
  have := forall_u8 (fun (x : UInt8) => (x &&& 3).toNat == x.toNat % 4) (by decide +kernel) x
  simpa using this

theorem pack_small : ∀ i, i < 4 → ∀ j, j < 4 → ∀ k, k < 4 → ∀ l, l < 4 →
    ((i.toUInt8 <<< (0 : UInt8)) ||| (j.toUInt8 <<< (2 : UInt8)) ||| (k.toUInt8 <<< (4 : UInt8))
      ||| (l.toUInt8 <<< (6 : UInt8)) : UInt8).toNat = l * 64 + k * 16 + j * 4 + i := by
  have := all_range (n := 4) (p := fun i => (List.range 4).all fun j => (List.range 4).all fun k =>
    (List.range 4).all fun l =>
    ((i.toUInt8 <<< (0 : UInt8)) ||| (j.toUInt8 <<< (2 : UInt8)) ||| (k.toUInt8 <<< (4 : UInt8))
      ||| (l.toUInt8 <<< (6 : UInt8)) : UInt8).toNat == l * 64 + k * 16 + j * 4 + i) (by decide +kernel)
  intro i hi j hj k hk l hl
  have h := all_range (all_range (all_range (this i hi) j hj) k hk) l hl
  simpa using h

theorem pack_toNat (w x y z : UInt8) (hw : w.toNat < 4) (hx : x.toNat < 4) (hy : y.toNat < 4)
    (hz : z.toNat < 4) :
    ((w <<< (0 : UInt8)) ||| (x <<< (2 : UInt8)) ||| (y <<< (4 : UInt8)) ||| (z <<< (6 : UInt8))).toNat
      = z.toNat * 64 + y.toNat * 16 + x.toNat * 4 + w.toNat := by
  have := pack_small w.toNat hw x.toNat hx y.toNat hy z.toNat hz
  simpa using this

theorem png_channels (r g b a : UInt8) :
    (decPixel r g b a).toNat = Spec.pixelByte r.toNat g.toNat b.toNat a.toNat := by
  unfold decPixel Spec.pixelByte
  rw [pack_toNat _ _ _ _ (by rw [low2_toNat]; omega) (by rw [low2_toNat]; omega)
    (by rw [low2_toNat]; omega) (by rw [low2_toNat]; omega)]
  simp only [low2_toNat]

/-- writing two bits into a channel: the low two bits are the new ones, the rest is kept -/
theorem enc_chan_small : ∀ c : UInt8, ∀ s, s < 4 →
    ((c &&& 0xfc) ||| s.toUInt8) &&& 3 = s.toUInt8 ∧
    ((c &&& 0xfc) ||| s.toUInt8) >>> (2 : UInt8) = c >>> (2 : UInt8) := by
  have := forall_u8 (fun (c : UInt8) => (List.range 4).all fun s =>
    (((c &&& 0xfc) ||| s.toUInt8) &&& 3 == s.toUInt8) &&
    (((c &&& 0xfc) ||| s.toUInt8) >>> (2 : UInt8) == c >>> (2 : UInt8))) (by decide +kernel)
  intro c s hs
  have h := all_range (this c) s hs
  simpa using h

theorem enc_chan (c s : UInt8) (hs : s.toNat < 4) :
    ((c &&& 0xfc) ||| s) &&& 3 = s ∧ ((c &&& 0xfc) ||| s) >>> (2 : UInt8) = c >>> (2 : UInt8) := by
  have := enc_chan_small c s.toNat hs
  simpa using this

theorem bits_lt4 (v : UInt8) : (v &&& 3).toNat < 4 := by rw [low2_toNat]; omega

theorem unpack_pack (v : UInt8) :
    ((v &&& 3) <<< (0 : UInt8)) ||| (((v >>> (2 : UInt8)) &&& 3) <<< (2 : UInt8)) |||
      (((v >>> (4 : UInt8)) &&& 3) <<< (4 : UInt8)) ||| (((v >>> (6 : UInt8)) &&& 3) <<< (6 : UInt8)) = v := by
  have := forall_u8 (fun (v : UInt8) =>
    ((v &&& 3) <<< (0 : UInt8)) ||| (((v >>> (2 : UInt8)) &&& 3) <<< (2 : UInt8)) |||
      (((v >>> (4 : UInt8)) &&& 3) <<< (4 : UInt8)) ||| (((v >>> (6 : UInt8)) &&& 3) <<< (6 : UInt8)) == v)
    (by decide +kernel) v
  simpa using this

theorem png_pixel_rt (r g b a v : UInt8) :
    (match encPixel r g b a v with
     | [r', g', b', a'] => decPixel r' g' b' a' = v ∧
         r' >>> (2 : UInt8) = r >>> (2 : UInt8) ∧ g' >>> (2 : UInt8) = g >>> (2 : UInt8) ∧
         b' >>> (2 : UInt8) = b >>> (2 : UInt8) ∧ a' >>> (2 : UInt8) = a >>> (2 : UInt8)
     | _ => False) := by
  obtain ⟨r1, r2⟩ := enc_chan r ((v >>> (4 : UInt8)) &&& 3) (bits_lt4 _)
  obtain ⟨g1, g2⟩ := enc_chan g ((v >>> (2 : UInt8)) &&& 3) (bits_lt4 _)
  obtain ⟨b1, b2⟩ := enc_chan b (v &&& 3) (bits_lt4 _)
  obtain ⟨a1, a2⟩ := enc_chan a ((v >>> (6 : UInt8)) &&& 3) (bits_lt4 _)
  simp only [encPixel]
  refine ⟨?_, r2, g2, b2, a2⟩
  unfold decPixel
  rw [r1, g1, b1, a1]
  exact unpack_pack v

/-! ### png layout -/

theorem png_layout (c : Cart) (cb : Bytes)
    (hg : c.gfx.length = 0x2000) (hm : c.map.length = 0x1000) (hf : c.gff.length = 0x100)
    (hmu : c.music.length = 0x100) (hs : c.sfx.length = 0x1100) (hc : cb.length = 0x3d00) (hv : c.version < 256) :
    let p := picodata c cb
    pySlice p 0 0x2000 = c.gfx ∧ pySlice p 0x2000 0x3000 = c.map ∧ pySlice p 0x3000 0x3100 = c.gff ∧
    pySlice p 0x3100 0x3200 = c.music ∧ pySlice p 0x3200 0x4300 = c.sfx ∧ pySlice p 0x4300 0x8000 = cb ∧
    p.length = 0x8001 ∧ (p.getD 0x8000 0).toNat = c.version := by
  intro p
  have hp : p = c.gfx ++ c.map ++ c.gff ++ c.music ++ c.sfx ++ cb ++ [c.version.toUInt8] := rfl
  refine ⟨?_, ?_, ?_, ?_, ?_, ?_, ?_, ?_⟩
  · have := pySlice_at [] c.gfx (c.map ++ c.gff ++ c.music ++ c.sfx ++ cb ++ [c.version.toUInt8]) 0 0x2000
      rfl (by omega)
    rw [hp]; simpa using this
  · have := pySlice_at c.gfx c.map (c.gff ++ c.music ++ c.sfx ++ cb ++ [c.version.toUInt8]) 0x2000 0x3000
      hg (by omega)
    rw [hp]; simpa using this
  · have := pySlice_at (c.gfx ++ c.map) c.gff (c.music ++ c.sfx ++ cb ++ [c.version.toUInt8]) 0x3000 0x3100
      (by simp; omega) (by omega)
    rw [hp]; simpa using this
  · have := pySlice_at (c.gfx ++ c.map ++ c.gff) c.music (c.sfx ++ cb ++ [c.version.toUInt8]) 0x3100 0x3200
      (by simp; omega) (by omega)
    rw [hp]; simpa using this
  · have := pySlice_at (c.gfx ++ c.map ++ c.gff ++ c.music) c.sfx (cb ++ [c.version.toUInt8]) 0x3200 0x4300
      (by simp; omega) (by omega)
    rw [hp]; simpa using this
  · have := pySlice_at (c.gfx ++ c.map ++ c.gff ++ c.music ++ c.sfx) cb [c.version.toUInt8] 0x4300 0x8000
      (by simp; omega) (by omega)
    rw [hp]; simpa using this
  · rw [hp]; simp; omega
  · rw [hp, List.getD_eq_getElem?_getD, List.getElem?_append_right (by simp; omega)]
    have : 0x8000 - (c.gfx ++ c.map ++ c.gff ++ c.music ++ c.sfx ++ cb).length = 0 := by simp; omega
    rw [this]
    simp
    omega

end Pico.C16L
