import PicoVerif.Lemmas.C01Lex
/-! Forward lexing lemmas for C01: a token text followed by a harmless continuation lexes to that token. -/
namespace Pico.C01L
open Pico.Lex Pico.Wr

/-! ### per-byte facts -/

theorem identStart_facts : ∀ b : UInt8, isIdentStart b = true →
    b ≠ 45 ∧ b ≠ 47 ∧ b ≠ 32 ∧ b ≠ 9 ∧ b ≠ 13 ∧ b ≠ 10 ∧ isDigit b = false ∧ b ≠ 46 ∧ b ≠ 58 ∧ b ≠ 91 ∧
    b ≠ 39 ∧ b ≠ 34 ∧ b ≠ 63 ∧ isIdentChar b = true ∧ (symLits.all fun l => l.head? != some b) = true := by
  intro b
  have := Pico.forall_u8 (fun b => !isIdentStart b || (b != 45 && b != 47 && b != 32 && b != 9 && b != 13 && b != 10 &&
    !isDigit b && b != 46 && b != 58 && b != 91 && b != 39 && b != 34 && b != 63 && isIdentChar b &&
    (symLits.all fun l => l.head? != some b))) (by decide +kernel) b
  intro h
  simp only [h, Bool.not_true, Bool.false_or, Bool.and_eq_true, bne_iff_ne, ne_eq, Bool.not_eq_true'] at this
  obtain ⟨⟨⟨⟨⟨⟨⟨⟨⟨⟨⟨⟨⟨⟨h1, h2⟩, h3⟩, h4⟩, h5⟩, h6⟩, h7⟩, h8⟩, h9⟩, h10⟩, h11⟩, h12⟩, h13⟩, h14⟩, h15⟩ := this
  exact ⟨h1, h2, h3, h4, h5, h6, h7, h8, h9, h10, h11, h12, h13, h14, h15⟩

theorem kws_identChar : (kws.all fun kw => kw.all isIdentChar && (kw.head?.map isIdentStart).getD false) = true := by
  decide +kernel

theorem digit_identChar (b : UInt8) (h : isDigit b = true) : isIdentChar b = true := by
  simp [isIdentChar, h]


/-! ### matchers that fail on the first byte -/

theorem mLineComment_none (c h : UInt8) (t : Bytes) (hne : h ≠ c) : mLineComment c (h :: t) = none := by
  cases t <;> simp [mLineComment, hne]

theorem mSpace_none (h : UInt8) (t : Bytes) (h1 : h ≠ 32) (h2 : h ≠ 9) : mSpace (h :: t) = none := by
  simp [mSpace, spanLen_cons, h1, h2]

theorem mLit_none_head (l0 h : UInt8) (lt t : Bytes) (hne : h ≠ l0) : mLit (l0 :: lt) (h :: t) = none := by
  simp [mLit, List.isPrefixOf, Ne.symm hne]

theorem mRadix_none (p1 p2 : UInt8) (dig : UInt8 → Bool) (h : UInt8) (t : Bytes) (hne : h ≠ 48) :
    mRadix p1 p2 dig (h :: t) = none := by
  cases t <;> simp [mRadix, hne]

theorem mRadixFrac_none (p1 p2 : UInt8) (dig : UInt8 → Bool) (h : UInt8) (t : Bytes) (hne : h ≠ 48) :
    mRadixFrac p1 p2 dig (h :: t) = none := by
  match t with
  | [] => simp [mRadixFrac]
  | [_] => simp [mRadixFrac]
  | _ :: _ :: _ => simp [mRadixFrac, hne]

theorem mDecimal_none (h : UInt8) (t : Bytes) (hd : isDigit h = false) : mDecimal (h :: t) = none := by
  simp [mDecimal, spanLen_cons, hd]

theorem mDotDecimal_none (h : UInt8) (t : Bytes) (hne : h ≠ 46) : mDotDecimal (h :: t) = none := by
  simp [mDotDecimal, hne]

theorem mLabel_none (h : UInt8) (t : Bytes) (hne : h ≠ 58) : mLabel (h :: t) = none := by
  match t with
  | [] => simp [mLabel]
  | [_] => simp [mLabel]
  | _ :: _ :: _ => simp [mLabel, hne]

theorem mName_none (h : UInt8) (t : Bytes) (hs : isIdentStart h = false) : mName (h :: t) = none := by
  simp [mName, hs]

theorem candsPre_none (h : UInt8) (t : Bytes) (h1 : h ≠ 45) (h2 : h ≠ 47) (h3 : h ≠ 32) (h4 : h ≠ 9)
    (h5 : h ≠ 13) (h6 : h ≠ 10) : firstSome (candsPre (h :: t)) = none := by
  simp [candsPre, firstSome, mLineComment_none _ _ _ h1, mLineComment_none _ _ _ h2, mSpace_none _ _ h3 h4,
    mLit_none_head _ _ _ _ h5, mLit_none_head _ _ _ _ h6]

theorem candsNum_none (h : UInt8) (t : Bytes) (h1 : isDigit h = false) (h2 : h ≠ 46) :
    firstSome (candsNum (h :: t)) = none := by
  have h48 : h ≠ 48 := by intro e; rw [e] at h1; exact absurd h1 (by decide)
  simp [candsNum, firstSome, mRadix_none _ _ _ _ _ h48, mRadixFrac_none _ _ _ _ _ h48, mDecimal_none _ _ h1,
    mDotDecimal_none _ _ h2]

theorem firstSome_lits_none (lits : List Bytes) (s : Bytes) (h : ∀ l ∈ lits, mLit l s = none) :
    firstSome (lits.map fun l => (Kind.symbol, mLit l s)) = none := by
  induction lits with
  | nil => rfl
  | cons l r ih =>
    simp only [List.map_cons, h l (by simp), firstSome]
    exact ih (fun l' hl' => h l' (by simp [hl']))

theorem candsSym_none (h : UInt8) (t : Bytes) (hs : (symLits.all fun l => l.head? != some h) = true) :
    firstSome (candsSym (h :: t)) = none := by
  apply firstSome_lits_none
  intro l hl
  rw [List.all_eq_true] at hs
  have := hs l hl
  cases l with
  | nil => simp [mLit]
  | cons l0 lt =>
    apply mLit_none_head
    intro e; subst e; simp at this

theorem kwla_none_of (s : Bytes)
    (h : ∀ kw ∈ kws, kw.isPrefixOf s = true → ((s.drop kw.length).head?.map isIdentChar).getD false = true) :
    mKeywordLA kws s = none := by
  unfold mKeywordLA
  rw [Option.map_eq_none_iff, List.find?_eq_none]
  intro kw hkw
  by_cases hp : kw.isPrefixOf s = true
  · rw [hp, h kw hkw hp]; decide
  · simp [hp]

theorem kwla_none_head (h : UInt8) (t : Bytes) (hs : isIdentStart h = false) : mKeywordLA kws (h :: t) = none := by
  apply kwla_none_of
  intro kw hkw hp
  exfalso
  have hk := kws_identChar
  rw [List.all_eq_true] at hk
  have := hk kw hkw
  cases kw with
  | nil => simp at this
  | cons k0 kt =>
    simp [List.isPrefixOf] at hp
    simp at this
    rw [hp.1] at this
    rw [this.2] at hs; cases hs



/-- the continuation does not start with an identifier byte -/
def Term (z : Bytes) : Prop := ∀ c, z.head? = some c → isIdentChar c = false

theorem kw_prefix_eq (kw x z : Bytes) (hkw : ∀ b ∈ kw, isIdentChar b = true) (hx : ∀ b ∈ x, isIdentChar b = true)
    (hz : Term z) (hp : kw.isPrefixOf (x ++ z) = true)
    (hn : (((x ++ z).drop kw.length).head?.map isIdentChar).getD false = false) : kw = x := by
  rw [List.isPrefixOf_iff_prefix] at hp
  rcases Nat.le_total kw.length x.length with hle | hle
  · obtain ⟨t, rfl⟩ := List.prefix_of_prefix_length_le hp (List.prefix_append x z) hle
    cases t with
    | nil => simp
    | cons b t' =>
      exfalso
      have hb : isIdentChar b = true := hx b (by simp)
      simp [hb] at hn
  · obtain ⟨t, rfl⟩ := List.prefix_of_prefix_length_le (List.prefix_append x z) hp hle
    rw [List.prefix_append_right_inj] at hp
    cases t with
    | nil => simp
    | cons b t' =>
      exfalso
      obtain ⟨w, rfl⟩ := hp
      have hb : isIdentChar b = true := hkw b (by simp)
      have := hz b (by simp)
      rw [hb] at this; cases this

theorem kws_all_identChar (kw : Bytes) (h : kw ∈ kws) : ∀ b ∈ kw, isIdentChar b = true := by
  have hk := kws_identChar
  rw [List.all_eq_true] at hk
  have := hk kw h
  simp only [Bool.and_eq_true, List.all_eq_true] at this
  exact this.1

/-- an identifier that is not a keyword, as the name matcher reads it back -/
structure NameLike (x : Bytes) : Prop where
  ne : x ≠ []
  start : ∀ c, x.head? = some c → isIdentStart c = true
  all : ∀ b ∈ x, isIdentChar b = true
  notKw : x ∉ kws

theorem matchOne_name (x z : Bytes) (hx : NameLike x) (hz : Term z) :
    matchOne shape (x ++ z) = some (.name, x.length) := by
  obtain ⟨h, t, rfl⟩ := List.exists_cons_of_ne_nil hx.ne
  have hs := hx.start h rfl
  obtain ⟨h1, h2, h3, h4, h5, h6, h7, h8, h9, -, -, -, -, -, h15⟩ := identStart_facts h hs
  have hkw : mKeywordLA kws (h :: t ++ z) = none := by
    apply kwla_none_of
    intro kw hkw hp
    cases hn : (((h :: t ++ z).drop kw.length).head?.map isIdentChar).getD false with
    | true => rfl
    | false =>
      have := kw_prefix_eq kw (h :: t) z (kws_all_identChar kw hkw) hx.all hz hp hn
      exact absurd (this ▸ hkw) hx.notKw
  have hsp : spanLen isIdentChar (t ++ z) = t.length := by
    rw [spanLen_append_all _ _ _ (fun b hb => hx.all b (by simp [hb])), spanLen_head_false _ _ hz]; rfl
  rw [matchOne_eq]
  simp only [List.cons_append, firstSome_append, candsPre_none h _ h1 h2 h3 h4 h5 h6, candsNum_none h _ h7 h8,
    candsSym_none h _ h15, Option.or_none, Option.none_or]
  simp only [List.cons_append] at hkw
  simp [firstSome, mLabel_none h _ h9, hkw, mName, hs, hsp]; omega

theorem matchOne_keyword (x z : Bytes) (hx : x ∈ kws) (hz : Term z) :
    matchOne shape (x ++ z) = some (.keyword, x.length) := by
  have hall := kws_all_identChar x hx
  have hk := kws_identChar
  rw [List.all_eq_true] at hk
  have hxk := hk x hx
  obtain ⟨h, t, rfl⟩ : ∃ h t, x = h :: t := by
    cases x with
    | nil => simp at hxk
    | cons h t => exact ⟨h, t, rfl⟩
  have hs : isIdentStart h = true := by
    simp only [Bool.and_eq_true] at hxk; simpa using hxk.2
  obtain ⟨h1, h2, h3, h4, h5, h6, h7, h8, h9, -, -, -, -, -, h15⟩ := identStart_facts h hs
  have hP : ((h :: t).isPrefixOf (h :: t ++ z) && !((((h :: t ++ z).drop (h :: t).length).head?.map isIdentChar).getD false)) = true := by
    have : (h :: t).isPrefixOf (h :: t ++ z) = true := by
      rw [List.isPrefixOf_iff_prefix]; exact List.prefix_append _ _
    rw [this, List.drop_left]
    cases z with
    | nil => simp
    | cons c z' => simp [hz c rfl]
  have hkw : mKeywordLA kws (h :: t ++ z) = some (h :: t).length := by
    unfold mKeywordLA
    cases hf : kws.find? fun kw => kw.isPrefixOf (h :: t ++ z) && !((((h :: t ++ z).drop kw.length).head?.map isIdentChar).getD false) with
    | none =>
      rw [List.find?_eq_none] at hf
      exact absurd hP (hf _ hx)
    | some kw =>
      have hmem := List.mem_of_find?_eq_some hf
      have hp := List.find?_some hf
      simp only [Bool.and_eq_true, Bool.not_eq_true'] at hp
      have := kw_prefix_eq kw (h :: t) z (kws_all_identChar kw hmem) hall hz hp.1 hp.2
      simp [this]
  rw [matchOne_eq]
  simp only [List.cons_append, firstSome_append, candsPre_none h _ h1 h2 h3 h4 h5 h6, candsNum_none h _ h7 h8,
    Option.or_none, Option.none_or]
  simp only [List.cons_append] at hkw
  simp [firstSome, mLabel_none h _ h9, hkw]



theorem matchOne_qmark (z : Bytes) : matchOne shape ([63] ++ z) = some (.name, 1) := by
  rw [matchOne_eq]
  simp only [List.cons_append, List.nil_append, firstSome_append,
    candsPre_none 63 _ (by decide) (by decide) (by decide) (by decide) (by decide) (by decide),
    candsNum_none 63 _ (by decide) (by decide), candsSym_none 63 _ (by decide +kernel), Option.or_none, Option.none_or]
  simp [firstSome, mLabel_none 63 _ (by decide), kwla_none_head 63 _ (by decide), mName_none 63 _ (by decide), mLit]

theorem matchOne_space (z : Bytes) (hz : ∀ c, z.head? = some c → c ≠ 32 ∧ c ≠ 9) :
    matchOne shape ([32] ++ z) = some (.space, 1) := by
  have : spanLen (fun b => b == 32 || b == 9) z = 0 := by
    apply spanLen_head_false
    intro c hc; simp [hz c hc]
  rw [matchOne_eq]
  simp [candsPre, firstSome, mLineComment_none 45 32 _ (by decide), mLineComment_none 47 32 _ (by decide),
    mSpace, spanLen_cons, this]

theorem matchOne_newline (z : Bytes) : matchOne shape ([10] ++ z) = some (.newline, 1) := by
  rw [matchOne_eq]
  simp [candsPre, firstSome, mLineComment_none 45 10 _ (by decide), mLineComment_none 47 10 _ (by decide),
    mSpace_none 10 _ (by decide) (by decide), mLit, List.isPrefixOf]

theorem matchOne_label (id z : Bytes) (hne : id ≠ []) (hs : ∀ c, id.head? = some c → isIdentStart c = true)
    (hall : ∀ b ∈ id, isIdentChar b = true) :
    matchOne shape ([58, 58] ++ id ++ [58, 58] ++ z) = some (.label, ([58, 58] ++ id ++ [58, 58]).length) := by
  obtain ⟨h, t, rfl⟩ := List.exists_cons_of_ne_nil hne
  have hs' := hs h rfl
  have hsp : spanLen isIdentChar (t ++ 58 :: 58 :: z) = t.length := by
    rw [spanLen_append_all _ _ _ (fun b hb => hall b (by simp [hb])), spanLen_cons]; simp [isIdentChar, isIdentStart, isDigit]
  rw [matchOne_eq]
  simp only [List.cons_append, List.nil_append, List.append_assoc, firstSome_append,
    candsPre_none 58 _ (by decide) (by decide) (by decide) (by decide) (by decide) (by decide),
    candsNum_none 58 _ (by decide) (by decide), Option.none_or]
  simp [firstSome, mLabel, hs', hsp]
  omega

theorem matchOne_lineComment (c : UInt8) (body z : Bytes) (hc : c = 45 ∨ c = 47) (hb : ∀ b ∈ body, b ≠ 10)
    (hz : ∀ d, z.head? = some d → d = 10) :
    matchOne shape (c :: c :: body ++ z) = some (.comment, (c :: c :: body).length) := by
  have hsp : spanLen (· != 10) (body ++ z) = body.length := by
    rw [spanLen_append_all _ _ _ (fun b h => by simpa using hb b h), spanLen_head_false]; · rfl
    intro d hd; simp [hz d hd]
  rw [matchOne_eq]
  rcases hc with rfl | rfl
  · simp [candsPre, firstSome, mLineComment, hsp]; omega
  · simp [candsPre, firstSome, mLineComment, hsp]; omega



theorem firstSome_lits_find (lits : List Bytes) (s : Bytes) :
    firstSome (lits.map fun l => (Kind.symbol, mLit l s)) =
      (lits.find? fun l => l.isPrefixOf s && !l.isEmpty).map fun l => (Kind.symbol, l.length) := by
  induction lits with
  | nil => rfl
  | cons l r ih =>
    simp only [List.map_cons, List.find?_cons]
    by_cases h : (l.isPrefixOf s && !l.isEmpty) = true
    · have : mLit l s = some l.length := by
        simp only [Bool.and_eq_true] at h
        simp [mLit, h.1, h.2]
      simp [this, firstSome, h]
    · have : mLit l s = none := by
        simp only [Bool.and_eq_true, not_and, Bool.not_eq_true] at h
        unfold mLit
        rw [if_neg]
        rintro ⟨h1, h2⟩
        have := h h1
        rw [this] at h2; cases h2
      simp [this, firstSome, h, ih]

/-- no earlier literal is a proper prefix of a later one -/
def prefOrd : List Bytes → Bool
  | [] => true
  | l :: rest => rest.all (fun l' => !(l.isPrefixOf l' && l.length < l'.length)) && prefOrd rest

theorem symLits_prefOrd : prefOrd symLits = true := by decide +kernel

theorem first_longest (lits : List Bytes) (s l : Bytes) (h : prefOrd lits = true)
    (hf : lits.find? (fun l => l.isPrefixOf s && !l.isEmpty) = some l) :
    ∀ l' ∈ lits, l'.isPrefixOf s = true → l' ≠ [] → l'.length ≤ l.length := by
  induction lits with
  | nil => simp at hf
  | cons a rest ih =>
    simp only [prefOrd, Bool.and_eq_true, List.all_eq_true] at h
    rw [List.find?_cons] at hf
    by_cases hP : (a.isPrefixOf s && !a.isEmpty) = true
    · simp only [hP, Option.some.injEq] at hf
      subst hf
      intro l' hl' hp' hne'
      rcases List.mem_cons.mp hl' with rfl | hl'
      · exact Nat.le_refl _
      · have hor := h.1 l' hl'
        simp only [Bool.and_eq_true] at hP
        rcases Nat.lt_or_ge a.length l'.length with hlt | hge
        · exfalso
          have hpa : a <+: s := List.isPrefixOf_iff_prefix.mp hP.1
          have hpl : l' <+: s := List.isPrefixOf_iff_prefix.mp hp'
          have : a <+: l' := List.prefix_of_prefix_length_le hpa hpl (Nat.le_of_lt hlt)
          rw [← List.isPrefixOf_iff_prefix] at this
          simp [this, hlt] at hor
        · exact hge
    · simp only [hP] at hf
      intro l' hl' hp' hne'
      rcases List.mem_cons.mp hl' with rfl | hl'
      · exfalso; apply hP; simp [hp', hne']
      · exact ih h.2 hf l' hl' hp' hne'

theorem symLits_ne_nil : (symLits.all fun l => !l.isEmpty) = true := by decide +kernel

theorem symHead_facts : ∀ b : UInt8, (symLits.any fun l => l.head? == some b) = true →
    b ≠ 32 ∧ b ≠ 9 ∧ b ≠ 13 ∧ b ≠ 10 ∧ isDigit b = false ∧ isIdentStart b = false ∧ b ≠ 39 ∧ b ≠ 34 ∧
      isIdentChar b = false := by
  intro b
  have := Pico.forall_u8 (fun b => !(symLits.any fun l => l.head? == some b) || (b != 32 && b != 9 && b != 13 && b != 10 &&
    !isDigit b && !isIdentStart b && b != 39 && b != 34 && !isIdentChar b)) (by decide +kernel) b
  intro h
  simp only [h, Bool.not_true, Bool.false_or, Bool.and_eq_true, bne_iff_ne, ne_eq, Bool.not_eq_true'] at this
  obtain ⟨⟨⟨⟨⟨⟨⟨⟨h1, h2⟩, h3⟩, h4⟩, h5⟩, h6⟩, h7⟩, h8⟩, h9⟩ := this
  exact ⟨h1, h2, h3, h4, h5, h6, h7, h8, h9⟩

theorem mLineComment_none_of (c : UInt8) (s : Bytes) (h : [c, c].isPrefixOf s = false) : mLineComment c s = none := by
  match s with
  | [] => rfl
  | [_] => rfl
  | a :: b :: r =>
    simp only [mLineComment]
    rw [if_neg]
    rintro ⟨rfl, rfl⟩
    simp [List.isPrefixOf] at h

theorem symLit_head (x : Bytes) (hx : x ∈ symLits) : ∃ h t, x = h :: t ∧ (symLits.any fun l => l.head? == some h) = true := by
  have := symLits_ne_nil
  rw [List.all_eq_true] at this
  have hne := this x hx
  cases x with
  | nil => simp at hne
  | cons h t =>
    refine ⟨h, t, rfl, ?_⟩
    rw [List.any_eq_true]
    exact ⟨h :: t, hx, by simp⟩

theorem matchOne_symbol (x z : Bytes) (hx : x ∈ symLits)
    (hc1 : [45, 45].isPrefixOf (x ++ z) = false) (hc2 : [47, 47].isPrefixOf (x ++ z) = false)
    (hdd : mDotDecimal (x ++ z) = none) (hlab : mLabel (x ++ z) = none)
    (hlong : ∀ l ∈ symLits, l.isPrefixOf (x ++ z) = true → l.length ≤ x.length) :
    matchOne shape (x ++ z) = some (.symbol, x.length) := by
  obtain ⟨h, t, rfl, hh⟩ := symLit_head x hx
  obtain ⟨h1, h2, h3, h4, h5, h6, -, -, -⟩ := symHead_facts h hh
  have h48 : h ≠ 48 := by intro e; rw [e] at h5; exact absurd h5 (by decide)
  have hne := symLits_ne_nil
  rw [List.all_eq_true] at hne
  have hsym : firstSome (candsSym (h :: t ++ z)) = some (.symbol, (h :: t).length) := by
    unfold candsSym
    rw [firstSome_lits_find]
    cases hf : symLits.find? (fun l => l.isPrefixOf (h :: t ++ z) && !l.isEmpty) with
    | none =>
      rw [List.find?_eq_none] at hf
      exfalso; apply hf _ hx
      simp
    | some l =>
      have hmem := List.mem_of_find?_eq_some hf
      have hp := List.find?_some hf
      simp only [Bool.and_eq_true] at hp
      have hle := hlong l hmem hp.1
      have hge := first_longest symLits _ l symLits_prefOrd hf (h :: t) hx
        (by rw [List.isPrefixOf_iff_prefix]; exact List.prefix_append _ _) (by simp)
      simp only [Option.map_some, Option.some.injEq, Prod.mk.injEq, true_and]
      omega
  rw [matchOne_eq]
  simp only [List.cons_append] at hc1 hc2 hdd hlab hsym ⊢
  simp only [firstSome_append, hsym]
  simp [candsPre, candsNum, firstSome, mLineComment_none_of _ _ hc1, mLineComment_none_of _ _ hc2, mSpace_none h _ h1 h2,
    mLit_none_head _ _ _ _ h3, mLit_none_head _ _ _ _ h4, mRadix_none _ _ _ _ _ h48, mRadixFrac_none _ _ _ _ _ h48,
    mDecimal_none _ _ h5, hdd, hlab, kwla_none_head h _ h6]



/-! ### a symbol followed by a harmless continuation -/

/-- the byte `c` right after the symbol `x` neither extends it nor turns it into another construct -/
def symNextB (x : Bytes) (c : UInt8) : Bool :=
  !(x.getLast? == some 45 && c == 45) && !(x == [47] && c == 47) && !(x == [46] && isDigit c) &&
  !(x == [91] && (c == 61 || c == 91)) && !(symLits.any fun l => (x ++ [c]).isPrefixOf l)

theorem symTable : (symLits.all fun x =>
    !([45, 45].isPrefixOf x) && !([47, 47].isPrefixOf x) &&
    !(x.head? == some 46 && ((x.drop 1).head?.map isDigit).getD false) &&
    (!(x.head? == some 58) || x == [58]) && (!(x.head? == some 91) || x == [91]) &&
    (!(x.head? == some 45 && x.length == 1) || x == [45]) && (!(x.head? == some 47 && x.length == 1) || x == [47])) = true := by
  decide +kernel

theorem two_prefix (p : UInt8) (x z : Bytes) (hx : x ≠ []) (h : [p, p].isPrefixOf (x ++ z) = true) :
    [p, p].isPrefixOf x = true ∨ (x = [p] ∧ z.head? = some p) := by
  match x, hx with
  | [a], _ =>
    cases z with
    | nil => simp [List.isPrefixOf] at h
    | cons c z' =>
      simp [List.isPrefixOf] at h
      obtain ⟨rfl, rfl⟩ := h
      right; simp
  | a :: b :: t, _ =>
    left
    simpa [List.isPrefixOf] using h

theorem mDotDecimal_some (s : Bytes) (n : Nat) (h : mDotDecimal s = some n) :
    ∃ d rest, s = 46 :: d :: rest ∧ isDigit d = true := by
  cases s with
  | nil => simp [mDotDecimal] at h
  | cons c rest =>
    simp only [mDotDecimal] at h
    split at h
    · rename_i hc
      split at h
      · cases h
      · rename_i hn
        cases rest with
        | nil => simp [spanLen_nil] at hn
        | cons d rest' =>
          rw [spanLen_cons] at hn
          by_cases hd : isDigit d = true
          · exact ⟨d, rest', by rw [hc], hd⟩
          · simp [hd] at hn
    · cases h

theorem mLabel_some (s : Bytes) (n : Nat) (h : mLabel s = some n) :
    ∃ c rest, s = 58 :: 58 :: c :: rest ∧ isIdentStart c = true := by
  match s with
  | [] => simp [mLabel] at h
  | [_] => simp [mLabel] at h
  | [_, _] => simp [mLabel] at h
  | a :: b :: c :: rest =>
    simp only [mLabel] at h
    split at h
    · rename_i hc
      exact ⟨c, rest, by rw [hc.1, hc.2.1], hc.2.2⟩
    · cases h

theorem sym_match (x z : Bytes) (hx : x ∈ symLits) (hB : ∀ c, z.head? = some c → symNextB x c = true)
    (hL : x = [58] → z.head? = some 58 → ∃ z', z = 58 :: 58 :: z') :
    matchOne shape (x ++ z) = some (.symbol, x.length) ∧ [45, 45, 91, 91].isPrefixOf (x ++ z) = false ∧
      NoLongOpen (x ++ z) ∧ (x ++ z).head? ≠ some 39 ∧ (x ++ z).head? ≠ some 34 := by
  have hT := symTable
  rw [List.all_eq_true] at hT
  have hTx := hT x hx
  simp only [Bool.and_eq_true, Bool.not_eq_true', Bool.or_eq_true, beq_iff_eq] at hTx
  obtain ⟨⟨⟨⟨⟨⟨t1, t2⟩, t3⟩, t4⟩, t5⟩, t6⟩, t7⟩ := hTx
  obtain ⟨h, t, rfl, hh⟩ := symLit_head x hx
  obtain ⟨-, -, -, -, -, -, q1, q2, -⟩ := symHead_facts h hh
  have hB' : ∀ c, z.head? = some c →
      ¬((h :: t).getLast? = some 45 ∧ c = 45) ∧ ¬(h :: t = [47] ∧ c = 47) ∧ ¬(h :: t = [46] ∧ isDigit c = true) ∧
      ¬(h :: t = [91] ∧ (c = 61 ∨ c = 91)) ∧ ∀ l ∈ symLits, ¬ (h :: t ++ [c]) <+: l := by
    intro c hc
    have := hB c hc
    simp only [symNextB, Bool.and_eq_true, Bool.not_eq_true', Bool.and_eq_false_iff, beq_eq_false_iff_ne, ne_eq,
      Bool.or_eq_false_iff, List.any_eq_false, Bool.not_eq_true] at this
    obtain ⟨⟨⟨⟨c1, c2⟩, c3⟩, c4⟩, c5⟩ := this
    refine ⟨?_, ?_, ?_, ?_, ?_⟩
    · rintro ⟨a, b⟩; rcases c1 with c1 | c1 <;> simp_all
    · rintro ⟨a, b⟩; rcases c2 with c2 | c2 <;> simp_all
    · rintro ⟨a, b⟩; rcases c3 with c3 | c3 <;> simp_all
    · rintro ⟨a, b⟩; rcases c4 with c4 | c4
      · exact c4 a
      · rcases b with b | b <;> simp_all
    · intro l hl hp
      have := c5 l hl
      rw [← List.isPrefixOf_iff_prefix] at hp
      simp_all
  have hc1 : [45, 45].isPrefixOf (h :: t ++ z) = false := by
    cases hp : [45, 45].isPrefixOf (h :: t ++ z) with
    | false => rfl
    | true =>
      exfalso
      rcases two_prefix 45 (h :: t) z (by simp) hp with h1 | ⟨h1, h2⟩
      · rw [t1] at h1; cases h1
      · exact (hB' 45 h2).1 ⟨by rw [h1]; rfl, rfl⟩
  have hc2 : [47, 47].isPrefixOf (h :: t ++ z) = false := by
    cases hp : [47, 47].isPrefixOf (h :: t ++ z) with
    | false => rfl
    | true =>
      exfalso
      rcases two_prefix 47 (h :: t) z (by simp) hp with h1 | ⟨h1, h2⟩
      · rw [t2] at h1; cases h1
      · exact (hB' 47 h2).2.1 ⟨h1, rfl⟩
  have hdd : mDotDecimal (h :: t ++ z) = none := by
    cases hm : mDotDecimal (h :: t ++ z) with
    | none => rfl
    | some n =>
      exfalso
      obtain ⟨d, rest, hs, hd⟩ := mDotDecimal_some _ _ hm
      simp only [List.cons_append, List.cons.injEq] at hs
      obtain ⟨rfl, hs⟩ := hs
      cases t with
      | nil =>
        simp only [List.nil_append] at hs
        exact (hB' d (by rw [hs]; rfl)).2.2.1 ⟨rfl, hd⟩
      | cons d' t' =>
        simp only [List.cons_append, List.cons.injEq] at hs
        obtain ⟨rfl, -⟩ := hs
        simp [hd] at t3
  have hlab : mLabel (h :: t ++ z) = none := by
    cases hm : mLabel (h :: t ++ z) with
    | none => rfl
    | some n =>
      exfalso
      obtain ⟨c, rest, hs, hc⟩ := mLabel_some _ _ hm
      simp only [List.cons_append, List.cons.injEq] at hs
      obtain ⟨rfl, hs⟩ := hs
      have ht : 58 :: t = [58] := by
        rcases t4 with t4 | t4
        · simp at t4
        · exact t4
      simp only [List.cons.injEq, true_and] at ht
      subst ht
      simp only [List.nil_append] at hs
      obtain ⟨z', hz'⟩ := hL rfl (by rw [hs]; rfl)
      rw [hz'] at hs
      simp only [List.cons.injEq, true_and] at hs
      rw [← hs.1] at hc
      exact absurd hc (by decide)
  have hlong : ∀ l ∈ symLits, l.isPrefixOf (h :: t ++ z) = true → l.length ≤ (h :: t).length := by
    intro l hl hp
    rw [List.isPrefixOf_iff_prefix] at hp
    rcases Nat.lt_or_ge (h :: t).length l.length with hlt | hge
    · exfalso
      obtain ⟨u, rfl⟩ := List.prefix_of_prefix_length_le (List.prefix_append (h :: t) z) hp (Nat.le_of_lt hlt)
      rw [List.prefix_append_right_inj] at hp
      cases u with
      | nil => simp at hlt
      | cons c u' =>
        obtain ⟨w, rfl⟩ := hp
        exact (hB' c rfl).2.2.2.2 _ hl ⟨u', by simp⟩
    · exact hge
  refine ⟨matchOne_symbol (h :: t) z hx hc1 hc2 hdd hlab hlong, ?_, ?_, ?_, ?_⟩
  · cases hp : [45, 45, 91, 91].isPrefixOf (h :: t ++ z) with
    | false => rfl
    | true =>
      exfalso
      rw [List.isPrefixOf_iff_prefix] at hp
      have : ([45, 45] : Bytes) <+: h :: t ++ z := (show ([45, 45] : Bytes) <+: [45, 45, 91, 91] from ⟨[91, 91], rfl⟩).trans hp
      rw [← List.isPrefixOf_iff_prefix, hc1] at this; cases this
  · intro r hr
    simp only [List.cons_append, List.cons.injEq] at hr
    obtain ⟨rfl, rfl⟩ := hr
    have ht : (91 : UInt8) :: t = [91] := by
      rcases t5 with t5 | t5
      · simp at t5
      · exact t5
    simp only [List.cons.injEq, true_and] at ht
    subst ht
    simp only [List.nil_append, List.cons_append]
    cases z with
    | nil => simp
    | cons c z' =>
      have := (hB' c rfl).2.2.2.1
      have hc61 : c ≠ 61 := fun e => this ⟨rfl, Or.inl e⟩
      have hc91 : c ≠ 91 := fun e => this ⟨rfl, Or.inr e⟩
      rw [spanLen_cons]
      simp [hc61, hc91]
  · simp only [List.cons_append, List.head?_cons, ne_eq, Option.some.injEq]; exact q1
  · simp only [List.cons_append, List.head?_cons, ne_eq, Option.some.injEq]; exact q2


end Pico.C01L
