import PicoVerif.Lemmas.C01Str
import PicoVerif.Lemmas.C01Num
/-! Invariants of lexer-produced tokens for C01. -/
namespace Pico.C01L
open Pico.Lex Pico.Wr


/-! ### what the lexer's tokens look like -/

theorem firstSome_none (l : List (Kind × Option Nat)) (h : firstSome l = none) : ∀ e ∈ l, e.2 = none := by
  induction l with
  | nil => simp
  | cons e r ih =>
    obtain ⟨k, o⟩ := e
    cases o with
    | some n => simp [firstSome] at h
    | none =>
      simp only [firstSome] at h
      intro e' he'
      rcases List.mem_cons.mp he' with rfl | he'
      · rfl
      · exact ih h e' he'

theorem expLen_le (s : Bytes) : expLen s ≤ s.length := by
  match s with
  | [] => simp [expLen]
  | [e] => rw [expLen_single]; simp
  | e :: m :: r =>
    by_cases he : e = 101 ∨ e = 69
    · by_cases hm : m = 45
      · subst hm
        rw [expLen_cons_minus e r he]
        have := spanLen_le isDigit r
        split <;> simp <;> omega
      · rw [expLen_cons_other e m r he hm]
        have := spanLen_le isDigit (m :: r)
        split <;> simp at * <;> omega
    · rw [expLen_cons_not e _ he]; simp

theorem fracLen_le (s : Bytes) : fracLen s ≤ s.length := by
  cases s with
  | nil => simp [fracLen]
  | cons d r =>
    simp only [fracLen]
    have := spanLen_le isDigit r
    split <;> simp <;> omega

theorem radTail_le (dig : UInt8 → Bool) (s : Bytes) : radTail dig s ≤ s.length := by
  cases s with
  | nil => simp [radTail]
  | cons d r =>
    simp only [radTail]
    have := spanLen_le dig r
    split <;> simp <;> omega

theorem mDecimal_le (s : Bytes) (n : Nat) (h : mDecimal s = some n) : n ≤ s.length := by
  rw [mDecimal_eq] at h
  split at h
  · cases h
  · simp only [Option.some.injEq] at h
    have h1 := spanLen_le isDigit s
    have h2 := fracLen_le (s.drop (spanLen isDigit s))
    have h3 := expLen_le ((s.drop (spanLen isDigit s)).drop (fracLen (s.drop (spanLen isDigit s))))
    simp only [List.length_drop] at h2 h3
    omega

theorem mDotDecimal_le (s : Bytes) (n : Nat) (h : mDotDecimal s = some n) : n ≤ s.length := by
  cases s with
  | nil => simp [mDotDecimal] at h
  | cons c rest =>
    rw [mDotDecimal_cons] at h
    split at h
    · split at h
      · cases h
      · simp only [Option.some.injEq] at h
        have h1 := spanLen_le isDigit rest
        have h3 := expLen_le (rest.drop (spanLen isDigit rest))
        simp only [List.length_drop] at h3
        simp only [List.length_cons]; omega
    · cases h

theorem mRadix_le (p1 p2 : UInt8) (dig : UInt8 → Bool) (s : Bytes) (n : Nat) (h : mRadix p1 p2 dig s = some n) :
    n ≤ s.length := by
  obtain ⟨x, rest, rfl, -, -, rfl⟩ := mRadix_some p1 p2 dig s n h
  have h1 := spanLen_le dig rest
  have h2 := radTail_le dig (rest.drop (spanLen dig rest))
  simp only [List.length_drop] at h2
  simp only [List.length_cons]; omega

theorem mRadixFrac_le (p1 p2 : UInt8) (dig : UInt8 → Bool) (s : Bytes) (n : Nat)
    (h : mRadixFrac p1 p2 dig s = some n) : n ≤ s.length := by
  obtain ⟨x, rest, rfl, -, -, rfl⟩ := mRadixFrac_some p1 p2 dig s n h
  have h1 := spanLen_le dig rest
  simp only [List.length_cons]; omega

theorem candsNum_le (s : Bytes) (n : Nat) (h : firstSome (candsNum s) = some (.number, n)) : n ≤ s.length := by
  have := firstSome_kind _ _ _ h
  simp only [candsNum, List.mem_cons, Prod.mk.injEq, true_and, List.not_mem_nil, or_false] at this
  rcases this with h | h | h | h | h | h
  · exact mRadix_le _ _ _ _ _ h.symm
  · exact mRadixFrac_le _ _ _ _ _ h.symm
  · exact mRadix_le _ _ _ _ _ h.symm
  · exact mRadixFrac_le _ _ _ _ _ h.symm
  · exact mDecimal_le _ _ h.symm
  · exact mDotDecimal_le _ _ h.symm



def LabelOK (d : Bytes) : Prop :=
  ∃ id, d = [58, 58] ++ id ++ [58, 58] ∧ id ≠ [] ∧ (∀ c, id.head? = some c → isIdentStart c = true) ∧
    ∀ b ∈ id, isIdentChar b = true

def NumOK (d : Bytes) : Prop := d ≠ [] ∧ ∃ r, matchOne shape (d ++ r) = some (.number, d.length)

def LineOK (d : Bytes) : Prop :=
  ∃ c body, d = c :: c :: body ∧ (c = 45 ∨ c = 47) ∧ (∀ b ∈ body, b ≠ 10) ∧ [45, 45, 91, 91].isPrefixOf d = false

def CommentOK (d : Bytes) : Prop := (∃ w, d = [45, 45, 91, 91] ++ w ∧ BlockOK w) ∨ LineOK d

/-- all the entries of the cascade in one list -/
def candsAll (s : Bytes) : List (Kind × Option Nat) :=
  candsPre s ++ candsNum s ++ [(.label, mLabel s), (.keyword, mKeywordLA kws s)] ++ candsSym s ++
    [(.name, mName s), (.name, mLit [63] s)]

theorem matchOne_eq' (s : Bytes) : matchOne shape s = firstSome (candsAll s) := matchOne_eq s

theorem mLit_some (l s : Bytes) (n : Nat) (h : mLit l s = some n) : n = l.length ∧ l <+: s ∧ s.take n = l := by
  unfold mLit at h
  split at h
  · rename_i hc
    simp only [Option.some.injEq] at h
    have hp := List.isPrefixOf_iff_prefix.mp hc.1
    refine ⟨h.symm, hp, ?_⟩
    rw [← h]; exact (List.prefix_iff_eq_take.mp hp).symm
  · cases h

theorem symbol_inv (s : Bytes) (n : Nat) (h : matchOne shape s = some (.symbol, n)) : s.take n ∈ symLits := by
  rw [matchOne_eq'] at h
  have := firstSome_kind _ _ _ h
  simp only [candsAll, candsPre, candsNum, candsSym, List.mem_append, List.mem_cons, Prod.mk.injEq, List.not_mem_nil,
    or_false, false_and, false_or, or_self, reduceCtorEq, List.mem_map, true_and] at this
  obtain ⟨l, hl, hm⟩ := this
  rw [(mLit_some l s n hm).2.2]; exact hl

theorem keyword_inv (s : Bytes) (n : Nat) (h : matchOne shape s = some (.keyword, n)) : s.take n ∈ kws := by
  rw [matchOne_eq'] at h
  have := firstSome_kind _ _ _ h
  simp only [candsAll, candsPre, candsNum, candsSym, List.mem_append, List.mem_cons, Prod.mk.injEq, List.not_mem_nil,
    or_false, false_and, false_or, or_self, reduceCtorEq, List.mem_map, true_and, exists_false, and_false] at this
  unfold mKeywordLA at this
  cases hf : kws.find? fun kw => kw.isPrefixOf s && !(((s.drop kw.length).head?.map isIdentChar).getD false) with
  | none => rw [hf] at this; cases this
  | some kw =>
    rw [hf] at this
    simp only [Option.map_some, Option.some.injEq] at this
    have hmem := List.mem_of_find?_eq_some hf
    have hp := List.find?_some hf
    simp only [Bool.and_eq_true] at hp
    have ht := List.prefix_iff_eq_take.mp (List.isPrefixOf_iff_prefix.mp hp.1)
    rw [this, ← ht]; exact hmem

theorem label_inv (s : Bytes) (n : Nat) (h : matchOne shape s = some (.label, n)) : LabelOK (s.take n) := by
  rw [matchOne_eq'] at h
  have := firstSome_kind _ _ _ h
  simp only [candsAll, candsPre, candsNum, candsSym, List.mem_append, List.mem_cons, Prod.mk.injEq, List.not_mem_nil,
    or_false, false_and, false_or, or_self, reduceCtorEq, List.mem_map, true_and, exists_false, and_false, or_false] at this
  match s, this with
  | [], h => simp [mLabel] at h
  | [_], h => simp [mLabel] at h
  | [_, _], h => simp [mLabel] at h
  | a :: b :: c :: rest, h =>
    simp only [mLabel] at h
    split at h
    · rename_i hc
      obtain ⟨rfl, rfl, hc⟩ := hc
      split at h
      · rename_i x y tl heq
        split at h
        · rename_i hxy
          obtain ⟨rfl, rfl⟩ := hxy
          simp only [Option.some.injEq] at h
          subst h
          have hall := spanLen_take_all isIdentChar rest
          have hle := spanLen_le isIdentChar rest
          generalize spanLen isIdentChar rest = m at *
          have hrest : rest = rest.take m ++ (58 :: 58 :: tl) := by
            rw [← heq]; exact (List.take_append_drop m rest).symm
          have hlen : (rest.take m).length = m := by simp; omega
          refine ⟨c :: rest.take m, ?_, by simp, ?_, ?_⟩
          · generalize rest.take m = pre at hrest hlen
            subst hrest
            subst hlen
            rw [show 3 + pre.length + 2 = (pre.length + 2) + 3 by omega]
            simp only [List.take_succ_cons, List.cons_append, List.nil_append, List.cons.injEq, true_and]
            rw [List.take_append, List.take_of_length_le (by omega)]
            simp
          · intro c' hc'; simp at hc'; subst hc'; exact hc
          · intro b hb
            rcases List.mem_cons.mp hb with rfl | hb
            · simp [isIdentChar, hc]
            · exact hall b hb
        · cases h
      · cases h
    · cases h



theorem not_string_inv (s : Bytes) (n : Nat) (h : matchOne shape s = some (.string, n)) : False := by
  rw [matchOne_eq'] at h
  have := firstSome_kind _ _ _ h
  simp [candsAll, candsPre, candsNum, candsSym] at this

theorem mLineComment_cons2 (c a b : UInt8) (rest : Bytes) : mLineComment c (a :: b :: rest) =
    if a = c ∧ b = c then some (2 + spanLen (· != 10) rest) else none := rfl

theorem lineOK_of (c : UInt8) (hc : c = 45 ∨ c = 47) : ∀ (s : Bytes) (n : Nat), mLineComment c s = some n →
    [45, 45, 91, 91].isPrefixOf s = false → LineOK (s.take n)
  | [], _, hm, _ => by simp [mLineComment] at hm
  | [_], _, hm, _ => by simp [mLineComment] at hm
  | a :: b :: rest, n, hm, hpre => by
    rw [mLineComment_cons2] at hm
    split at hm
    · rename_i hab
      obtain ⟨rfl, rfl⟩ := hab
      simp only [Option.some.injEq] at hm
      subst hm
      refine ⟨b, rest.take (spanLen (· != 10) rest), ?_, hc, ?_, ?_⟩
      · rw [show 2 + spanLen (· != 10) rest = spanLen (· != 10) rest + 1 + 1 by omega]
        simp only [List.take_succ_cons]
      · intro x hb
        have := spanLen_take_all (· != 10) rest x hb
        simpa using this
      · cases hp : [45, 45, 91, 91].isPrefixOf (List.take (2 + spanLen (· != 10) rest) (b :: b :: rest)) with
        | false => rfl
        | true =>
          rw [List.isPrefixOf_iff_prefix] at hp
          have := hp.trans (List.take_prefix _ _)
          rw [← List.isPrefixOf_iff_prefix, hpre] at this; cases this
    · cases hm

theorem comment_inv (s : Bytes) (n : Nat) (h : matchOne shape s = some (.comment, n))
    (hpre : [45, 45, 91, 91].isPrefixOf s = false) : LineOK (s.take n) := by
  rw [matchOne_eq'] at h
  have := firstSome_kind _ _ _ h
  simp only [candsAll, candsPre, candsNum, candsSym, List.mem_append, List.mem_cons, Prod.mk.injEq, List.not_mem_nil,
    or_false, false_and, or_self, reduceCtorEq, List.mem_map, true_and, exists_false, and_false, or_false] at this
  rcases this with h | h
  · exact lineOK_of 45 (Or.inl rfl) s n h.symm hpre
  · exact lineOK_of 47 (Or.inr rfl) s n h.symm hpre

theorem name_inv (s : Bytes) (n : Nat) (h : matchOne shape s = some (.name, n)) :
    s.take n = [63] ∨ NameLike (s.take n) := by
  rw [matchOne_eq'] at h
  unfold candsAll at h
  rw [firstSome_append] at h
  cases hA : firstSome (candsPre s ++ candsNum s ++ [(.label, mLabel s), (.keyword, mKeywordLA kws s)] ++ candsSym s) with
  | some kn =>
    exfalso
    obtain ⟨k, m⟩ := kn
    rw [hA] at h
    simp only [Option.some_or, Option.some.injEq, Prod.mk.injEq] at h
    have := firstSome_kind _ _ _ hA
    rw [h.1] at this
    simp [candsPre, candsNum, candsSym] at this
  | none =>
    rw [hA] at h
    simp only [Option.none_or] at h
    have hkw : mKeywordLA kws s = none := by
      have := firstSome_none _ hA (.keyword, mKeywordLA kws s) (by simp)
      exact this
    cases s with
    | nil => simp [firstSome, mName, mLit] at h
    | cons c rest =>
      by_cases hs : isIdentStart c = true
      · right
        have hn : n = 1 + spanLen isIdentChar rest := by
          simp [firstSome, mName, hs] at h; omega
        subst hn
        have htake : (c :: rest).take (1 + spanLen isIdentChar rest) = c :: rest.take (spanLen isIdentChar rest) := by
          rw [show 1 + spanLen isIdentChar rest = spanLen isIdentChar rest + 1 by omega, List.take_succ_cons]
        have hall : ∀ b ∈ c :: rest.take (spanLen isIdentChar rest), isIdentChar b = true := by
          intro b hb
          rcases List.mem_cons.mp hb with rfl | hb
          · simp [isIdentChar, hs]
          · exact spanLen_take_all isIdentChar rest b hb
        rw [htake]
        refine ⟨by simp, ?_, hall, ?_⟩
        · intro c' hc'; simp at hc'; subst hc'; exact hs
        · intro hmem
          unfold mKeywordLA at hkw
          rw [Option.map_eq_none_iff, List.find?_eq_none] at hkw
          apply hkw _ hmem
          have hle := spanLen_le isIdentChar rest
          have hp : (c :: rest.take (spanLen isIdentChar rest)).isPrefixOf (c :: rest) = true := by
            rw [List.isPrefixOf_iff_prefix, ← htake]; exact List.take_prefix _ _
          have hd : ((c :: rest).drop (c :: rest.take (spanLen isIdentChar rest)).length).head? =
              (rest.drop (spanLen isIdentChar rest)).head? := by
            simp [Nat.min_eq_left hle]
          rw [hp, hd]
          cases hh : (rest.drop (spanLen isIdentChar rest)).head? with
          | none => rfl
          | some x => simp [spanLen_drop_head isIdentChar rest x hh]
      · left
        have hs' : isIdentStart c = false := by simpa using hs
        simp only [firstSome, mName_none c rest hs'] at h
        cases hl : mLit [63] (c :: rest) with
        | none => rw [hl] at h; simp [firstSome] at h
        | some m =>
          rw [hl] at h
          simp only [firstSome, Option.some.injEq, Prod.mk.injEq, true_and] at h
          subst h
          exact (mLit_some _ _ _ hl).2.2

theorem number_inv (s : Bytes) (n : Nat) (h : matchOne shape s = some (.number, n)) (hn : n ≠ 0) :
    NumOK (s.take n) := by
  obtain ⟨-, hnum⟩ := matchOne_number_inv s n h
  have hle := candsNum_le s n hnum
  refine ⟨?_, s.drop n, ?_⟩
  · intro h0
    have := congrArg List.length h0
    rw [List.length_take, Nat.min_eq_left hle] at this
    exact hn this
  · rw [List.take_append_drop, List.length_take, Nat.min_eq_left hle]; exact h



/-- what every token produced by the lexer satisfies -/
structure WF (t : Tok) : Prop where
  str : t.kind = .string → ((t.mlq = none ∧ ∃ q, t.quote = some q ∧ (q = 34 ∨ q = 39)) ∨
    (t.quote = none ∧ ∃ n, t.mlq = some (List.replicate n 61) ∧ LongOK n t.data))
  comment : t.kind = .comment → CommentOK t.data
  plain : t.kind ≠ .string → t.quote = none ∧ t.mlq = none
  name : t.kind = .name → t.data = [63] ∨ NameLike t.data
  keyword : t.kind = .keyword → t.data ∈ kws
  symbol : t.kind = .symbol → t.data ∈ symLits
  number : t.kind = .number → NumOK t.data
  label : t.kind = .label → LabelOK t.data

theorem wf_of_matchOne (s : Bytes) (k : Kind) (n l c : Nat) (h : matchOne shape s = some (k, n)) (hn : n ≠ 0)
    (hpre : [45, 45, 91, 91].isPrefixOf s = false) :
    WF { kind := k, data := s.take n, line := l, col := c } := by
  refine ⟨?_, ?_, ?_, ?_, ?_, ?_, ?_, ?_⟩ <;> intro hk <;> simp only at hk
  · subst hk; exact absurd h (fun h => not_string_inv s n h)
  · subst hk; exact Or.inr (comment_inv s n h hpre)
  · exact ⟨rfl, rfl⟩
  · subst hk; exact name_inv s n h
  · subst hk; exact keyword_inv s n h
  · subst hk; exact symbol_inv s n h
  · subst hk; exact number_inv s n h hn
  · subst hk; exact label_inv s n h

def ModeOK (m : Mode) (s : Bytes) : Prop :=
  match m with
  | .normal => True
  | .inStr d _ _ _ => d = 34 ∨ d = 39
  | .inComment _ _ acc => acc = [45, 45, 91, 91] ∨ s = []
  | .inLong delim _ _ acc => (∃ n, delim = List.replicate n 61) ∧ (acc = [] ∨ s = [])

def StOK (st : LexSt) (s : Bytes) : Prop := (∀ t ∈ st.toks.toList, WF t) ∧ ModeOK st.mode s

theorem StOK_advance (st : LexSt) (c s : Bytes) (h : StOK st s) : StOK (advance st c) s := by
  unfold StOK; rw [advance_toks, advance_mode]; exact h

theorem wf_block (s : Bytes) (k l c : Nat) (h : findSub [93, 93] s 0 = some k) :
    WF { kind := .comment, data := [45, 45, 91, 91] ++ s.take (k + 2), line := l, col := c } := by
  refine ⟨?_, ?_, ?_, ?_, ?_, ?_, ?_, ?_⟩ <;> intro hk <;> simp only at hk <;> try cases hk
  · left
    obtain ⟨hlen, -⟩ := findSub_spec _ _ _ h
    simp only [List.length_cons, List.length_nil] at hlen
    refine ⟨s.take (k + 2), rfl, by simp; omega, ?_⟩
    intro z
    have := findSub_stab [93, 93] s k (by simp) h z
    simp only [List.length_cons, List.length_nil] at this
    rw [this]; simp; omega
  · exact ⟨rfl, rfl⟩

theorem wf_long (s : Bytes) (n k l c : Nat) (h : findSub (longPat n) s 0 = some k) :
    WF { kind := .string, data := [] ++ s.take k, mlq := some (List.replicate n 61), line := l, col := c } := by
  refine ⟨?_, ?_, ?_, ?_, ?_, ?_, ?_, ?_⟩ <;> intro hk <;> simp only at hk <;> try cases hk
  · right
    refine ⟨rfl, n, rfl, ?_⟩
    intro z
    obtain ⟨hlen, hp⟩ := findSub_spec _ _ _ h
    have := findSub_stab (longPat n) s k (by simp [longPat]) h z
    have htk : s.take (k + (longPat n).length) = s.take k ++ longPat n := by
      rw [List.take_add]
      congr 1
      exact (List.prefix_iff_eq_take.mp hp).symm
    rw [htk] at this
    simp only [List.nil_append]
    rw [this]; simp; omega
  · exact absurd rfl hk



theorem all_push {st : LexSt} {s : Bytes} (hinv : StOK st s) (t : Tok) (ht : WF t) :
    ∀ t' ∈ (st.toks.push t).toList, WF t' := by
  intro t' ht'
  simp only [Array.toList_push, List.mem_append, List.mem_singleton] at ht'
  rcases ht' with h | rfl
  · exact hinv.1 t' h
  · exact ht

theorem normalMatch_ok (st : LexSt) (s : Bytes) (st' : LexSt) (i : Nat) (hinv : StOK st s) (hm : st.mode = .normal)
    (hpre : [45, 45, 91, 91].isPrefixOf s = false)
    (h : processToken.normalMatch shape st s (fun st' i => .ok (advance st' (s.take i), i)) = .ok (st', i))
    (hi : i ≠ 0 ∨ s = []) : StOK st' (s.drop i) := by
  cases s with
  | nil =>
    simp only [processToken.normalMatch, Except.ok.injEq, Prod.mk.injEq] at h
    obtain ⟨rfl, rfl⟩ := h
    exact ⟨hinv.1, by rw [hm]; trivial⟩
  | cons q r =>
    simp only [processToken.normalMatch] at h
    split at h
    · rename_i hq
      simp only [Except.ok.injEq, Prod.mk.injEq] at h
      obtain ⟨rfl, rfl⟩ := h
      apply StOK_advance
      exact ⟨hinv.1, by simp only [ModeOK]; exact hq.symm⟩
    · split at h
      · rename_i k n hmo
        simp only [Except.ok.injEq, Prod.mk.injEq] at h
        obtain ⟨rfl, rfl⟩ := h
        have hn : n ≠ 0 := by rcases hi with h | h; exact h; cases h
        apply StOK_advance
        exact ⟨all_push hinv _ (wf_of_matchOne _ k n _ _ hmo hn hpre), by simp only [ModeOK, hm]⟩
      · simp only [Except.ok.injEq, Prod.mk.injEq] at h
        obtain ⟨rfl, rfl⟩ := h
        exact ⟨hinv.1, by rw [hm]; trivial⟩

theorem processToken_ok (st : LexSt) (s : Bytes) (st' : LexSt) (i : Nat) (hinv : StOK st s)
    (h : processToken shape st s = .ok (st', i)) (hi : i ≠ 0 ∨ s = []) : StOK st' (s.drop i) := by
  unfold processToken at h
  simp only at h
  cases hm : st.mode with
  | inStr delim l c acc =>
    have hd : delim = 34 ∨ delim = 39 := by have := hinv.2; rw [hm] at this; exact this
    rw [hm] at h
    simp only at h
    split at h
    · cases h
    · rename_i closed acc' j heq
      split at h
      · simp only [Except.ok.injEq, Prod.mk.injEq] at h
        obtain ⟨rfl, rfl⟩ := h
        apply StOK_advance
        refine ⟨all_push hinv _ ?_, by simp only [ModeOK]⟩
        refine ⟨?_, ?_, ?_, ?_, ?_, ?_, ?_, ?_⟩ <;> intro hk <;> simp only at hk <;> try cases hk
        · exact Or.inl ⟨rfl, delim, rfl, hd⟩
        · exact absurd rfl hk
      · simp only [Except.ok.injEq, Prod.mk.injEq] at h
        obtain ⟨rfl, rfl⟩ := h
        apply StOK_advance
        exact ⟨hinv.1, by simp only [ModeOK]; exact hd⟩
  | inComment l c acc =>
    have hacc : acc = [45, 45, 91, 91] ∨ s = [] := by have := hinv.2; rw [hm] at this; exact this
    rw [hm] at h
    simp only at h
    split at h
    · rename_i k hf
      simp only [Except.ok.injEq, Prod.mk.injEq] at h
      obtain ⟨rfl, rfl⟩ := h
      apply StOK_advance
      have hacc' : acc = [45, 45, 91, 91] := by
        rcases hacc with h | h
        · exact h
        · subst h; simp [findSub] at hf
      subst hacc'
      exact ⟨all_push hinv _ (wf_block s k l c hf), by simp only [ModeOK]⟩
    · simp only [Except.ok.injEq, Prod.mk.injEq] at h
      obtain ⟨rfl, rfl⟩ := h
      apply StOK_advance
      exact ⟨hinv.1, by simp [ModeOK]⟩
  | inLong delim l c acc =>
    have hacc : (∃ n, delim = List.replicate n 61) ∧ (acc = [] ∨ s = []) := by
      have := hinv.2; rw [hm] at this; exact this
    obtain ⟨⟨n, rfl⟩, hacc⟩ := hacc
    rw [hm] at h
    simp only at h
    split at h
    · rename_i k hf
      simp only [Except.ok.injEq, Prod.mk.injEq] at h
      obtain ⟨rfl, rfl⟩ := h
      apply StOK_advance
      have hacc' : acc = [] := by
        rcases hacc with h | h
        · exact h
        · subst h; simp [findSub] at hf
      subst hacc'
      exact ⟨all_push hinv _ (wf_long s n k l c hf), by simp only [ModeOK]⟩
    · simp only [Except.ok.injEq, Prod.mk.injEq] at h
      obtain ⟨rfl, rfl⟩ := h
      apply StOK_advance
      exact ⟨hinv.1, by simp [ModeOK]⟩
  | normal =>
    rw [hm] at h
    simp only at h
    split at h
    · simp only [Except.ok.injEq, Prod.mk.injEq] at h
      obtain ⟨rfl, rfl⟩ := h
      apply StOK_advance
      exact ⟨hinv.1, by simp [ModeOK]⟩
    · rename_i hpre
      have hpre' : [45, 45, 91, 91].isPrefixOf s = false := by
        cases hh : [45, 45, 91, 91].isPrefixOf s with
        | false => rfl
        | true => exact absurd hh hpre
      split at h
      · split at h
        · simp only [Except.ok.injEq, Prod.mk.injEq] at h
          obtain ⟨rfl, rfl⟩ := h
          apply StOK_advance
          exact ⟨hinv.1, by simp [ModeOK]⟩
        · exact normalMatch_ok st s st' i hinv hm hpre' h hi
      · exact normalMatch_ok st s st' i hinv hm hpre' h hi



theorem processLine_ok : ∀ (fuel : Nat) (st : LexSt) (s : Bytes) (st' : LexSt), StOK st s →
    processLine shape fuel st s = .ok st' → ∀ t ∈ st'.toks.toList, WF t := by
  intro fuel
  induction fuel with
  | zero => intro st s st' _ h; simp [processLine] at h
  | succ fuel ih =>
    intro st s st' hinv h
    simp only [processLine] at h
    split at h
    · cases h
    · rename_i st1 i hp
      split at h
      · rename_i hi
        split at h
        · rename_i hs
          simp only [Except.ok.injEq] at h
          subst h
          have hs' : s = [] := by simpa using hs
          exact (processToken_ok st s st1 i hinv hp (Or.inr hs')).1
        · cases h
      · rename_i hi
        exact ih st1 (s.drop i) st' (processToken_ok st s st1 i hinv hp (Or.inl hi)) h

/-- every token of a successfully lexed source is well-formed -/
theorem lex_wf (src : Bytes) (toks : List Tok) (h : lex [src] = .ok toks) : ∀ t ∈ toks, WF t := by
  unfold lex processLines at h
  simp only [processLinesFrom] at h
  split at h
  · cases h
  · rename_i st heq
    split at heq
    · cases heq
    · rename_i st1 hl
      simp only [Except.ok.injEq] at heq
      subst heq
      split at h
      · simp only [Except.ok.injEq] at h
        subst h
        exact processLine_ok _ _ _ _ ⟨by simp, by trivial⟩ hl
      · cases h


end Pico.C01L
