import PicoVerif.Model.Writers
import PicoVerif.Spec.LuaLex
/-! Lemmas for C19 (luamin keeps the header comments). -/
namespace Pico.C19L
open Pico.Lex Pico.Wr

/-! ### the writer on the leading trivia -/

/-- the comments that precede any code (copy of `C19.leadComments`) -/
def leadC : List Tok → List Tok
  | [] => []
  | t :: rest => if t.kind = .comment then t :: leadC rest else if t.trivia then leadC rest else []

theorem minStep_comment_dropped (cfg : NameCfg) (st : MinSt) (t : Tok) (hk : t.kind = .comment)
    (h : st.seenCode = true ∨ st.hdr ≥ 2) : minStep cfg st t = (st, []) := by
  have h' : (!st.seenCode && decide (st.hdr < 2)) = false := by
    rcases h with h | h
    · simp [h]
    · simp; intro _; omega
  simp [minStep, Tok.trivia, hk, h']

theorem minStep_comment_kept (cfg : NameCfg) (st : MinSt) (t : Tok) (hk : t.kind = .comment)
    (h1 : st.seenCode = false) (h2 : st.hdr < 2) :
    minStep cfg st t = ({ st with hdr := st.hdr + 1 }, [t.code, [10]]) := by
  simp [minStep, Tok.trivia, hk, h1, h2]

theorem minStep_space (cfg : NameCfg) (st : MinSt) (t : Tok) (hk : t.kind = .space) :
    minStep cfg st t = (st, []) := by
  simp [minStep, Tok.trivia, hk]

theorem minStep_newline (cfg : NameCfg) (st : MinSt) (t : Tok) (hk : t.kind = .newline)
    (h : st.lastNL = true) :
    minStep cfg st t = ({ st with lastNKN := false, lastNL := true }, []) := by
  simp [minStep, Tok.trivia, hk, h]

theorem minStep_seen (cfg : NameCfg) (st : MinSt) (t : Tok) (hk : t.trivia = false) :
    minStep cfg { st with seenCode := true } t = minStep cfg st t := by
  obtain ⟨n, a, b, c, s⟩ := st
  cases s <;> simp [minStep, hk]

/-- scanning the leading trivia: the chunks are those of the first `2 - st.hdr` leading comments,
followed by the chunks of the rest from a state where no further comment is emitted -/
theorem scan (cfg : NameCfg) (toks : List Tok) :
    ∀ st : MinSt, st.seenCode = false → st.lastNL = true →
    ∃ st' rest, minChunks cfg st toks =
        ((leadC toks).take (2 - st.hdr)).flatMap (fun t => [t.code, [10]]) ++ minChunks cfg st' rest ∧
      (st'.seenCode = true ∨ st'.hdr ≥ 2 ∨ rest = []) ∧ (∃ pre, toks = pre ++ rest) := by
  induction toks with
  | nil => intro st _ _; exact ⟨st, [], by simp [leadC, minChunks], by simp, [], rfl⟩
  | cons t ts ih =>
    intro st h1 h2
    by_cases hh : st.hdr ≥ 2
    · refine ⟨st, t :: ts, ?_, Or.inr (Or.inl hh), [], rfl⟩
      rw [show 2 - st.hdr = 0 by omega]; simp
    · have hlt : st.hdr < 2 := by omega
      by_cases hc : t.kind = .comment
      · obtain ⟨st', rest, e, hp, pre, hpre⟩ := ih { st with hdr := st.hdr + 1 } h1 h2
        refine ⟨st', rest, ?_, hp, t :: pre, by rw [hpre]; rfl⟩
        simp only [minChunks, minStep_comment_kept cfg st t hc h1 hlt, leadC, hc, if_true]
        rw [e, show 2 - st.hdr = (2 - (st.hdr + 1)) + 1 by omega]
        simp
      · by_cases hsp : t.kind = .space
        · obtain ⟨st', rest, e, hp, pre, hpre⟩ := ih st h1 h2
          refine ⟨st', rest, ?_, hp, t :: pre, by rw [hpre]; rfl⟩
          simp only [minChunks, minStep_space cfg st t hsp, leadC, hc, if_false]
          simp [Tok.trivia, hsp, e]
        · by_cases hnl : t.kind = .newline
          · obtain ⟨st', rest, e, hp, pre, hpre⟩ :=
              ih { st with lastNKN := false, lastNL := true } h1 rfl
            refine ⟨st', rest, ?_, hp, t :: pre, by rw [hpre]; rfl⟩
            simp only [minChunks, minStep_newline cfg st t hnl h2, leadC, hc, if_false]
            simp [Tok.trivia, hnl, e]
          · have htr : t.trivia = false := by simp [Tok.trivia, hc, hsp, hnl]
            refine ⟨{ st with seenCode := true }, t :: ts, ?_, Or.inl rfl, [], rfl⟩
            simp only [minChunks, minStep_seen cfg st t htr, leadC, hc, if_false, htr]
            simp

/-! ### joining the header chunks -/

theorem needsSpace_nil (c : Bytes) : needsSpace [] c = false := by
  simp [needsSpace]

theorem needsSpace_lf_left (c : Bytes) : needsSpace [10] c = false := by
  cases c with
  | nil => simp [needsSpace]
  | cons x xs => simp [needsSpace, isDigit]

theorem needsSpace_lf_right (p : Bytes) : needsSpace p [10] = false := by
  cases h : p.getLast? with
  | none => simp [needsSpace, h]
  | some l => simp [needsSpace, h]

theorem join_header (code : Tok → Bytes) (l : List Tok) (r : List Bytes) :
    ∀ prev : Bytes, prev = [] ∨ prev = [10] →
    ∃ prev', joinChunks prev (l.flatMap (fun t => [code t, [10]]) ++ r) =
      l.flatMap (fun t => code t ++ [10]) ++ joinChunks prev' r := by
  induction l with
  | nil => intro prev _; exact ⟨prev, by simp⟩
  | cons t ts ih =>
    intro prev hp
    obtain ⟨prev', e⟩ := ih [10] (Or.inr rfl)
    refine ⟨prev', ?_⟩
    have h1 : needsSpace prev (code t) = false := by
      rcases hp with rfl | rfl
      · exact needsSpace_nil _
      · exact needsSpace_lf_left _
    simp only [List.flatMap_cons, List.cons_append, List.nil_append, joinChunks, h1,
      needsSpace_lf_right, e]
    simp

/-! ### reading a kept comment back -/

theorem take_prefix {α} (l1 l2 : List α) (n : Nat) (h : n = l1.length) : (l1 ++ l2).take n = l1 := by
  subst h; simp

theorem isPrefixOf_of_append_sep (c : UInt8) (rest : Bytes) :
    ∀ (pat d : Bytes), c ∉ pat → pat.isPrefixOf (d ++ c :: rest) = true → pat.isPrefixOf d = true := by
  intro pat
  induction pat with
  | nil => intro d _ _; simp
  | cons p ps ih =>
    intro d hc h
    cases d with
    | nil =>
      simp [List.isPrefixOf] at h
      simp [h.1] at hc
    | cons x xs =>
      simp [List.isPrefixOf] at h ⊢
      exact ⟨h.1, by simpa using ih xs (fun hm => hc (List.mem_cons_of_mem _ hm)) (by simpa using h.2)⟩

theorem isPrefixOf_append (pat a b : Bytes) (h : pat.isPrefixOf a = true) :
    pat.isPrefixOf (a ++ b) = true := by
  rw [List.isPrefixOf_iff_prefix] at h ⊢
  exact h.trans (List.prefix_append a b)

theorem isPrefixOf_of_append_len (pat a b : Bytes) (h : pat.isPrefixOf (a ++ b) = true)
    (hl : pat.length ≤ a.length) : pat.isPrefixOf a = true := by
  rw [List.isPrefixOf_iff_prefix] at h ⊢
  exact List.prefix_of_prefix_length_le h (List.prefix_append a b) hl

theorem findSub_some_len (pat : Bytes) : ∀ (a : Bytes) (i k : Nat), findSub pat a i = some k →
    i ≤ k ∧ k - i + pat.length ≤ a.length := by
  intro a
  induction a with
  | nil =>
    intro i k h
    simp only [findSub] at h
    split at h
    · rename_i he
      simp at h; subst h
      simp at he; simp [he]
    · simp at h
  | cons c cs ih =>
    intro i k h
    simp only [findSub] at h
    split at h
    · rename_i hp
      simp at h; subst h
      rw [List.isPrefixOf_iff_prefix] at hp
      have := hp.length_le
      simp at this ⊢; omega
    · have := ih _ _ h
      simp; omega

/-- a match found in a prefix is still the first match in any extension -/
theorem findSub_append (pat b : Bytes) : ∀ (a : Bytes) (i k : Nat), findSub pat a i = some k →
    findSub pat (a ++ b) i = some k := by
  intro a
  induction a with
  | nil =>
    intro i k h
    simp only [findSub] at h
    split at h
    · rename_i he
      simp at he; subst he
      cases b <;> simpa [findSub] using h
    · simp at h
  | cons c cs ih =>
    intro i k h
    simp only [findSub] at h
    simp only [List.cons_append, findSub]
    split at h
    · rename_i hp
      have := isPrefixOf_append pat (c :: cs) b hp
      simp only [List.cons_append] at this
      simp [this, h]
    · rename_i hp
      have hl := findSub_some_len pat cs _ _ h
      have hn : pat.isPrefixOf (c :: (cs ++ b)) = false := by
        cases hq : pat.isPrefixOf (c :: (cs ++ b)) with
        | false => rfl
        | true =>
          exact absurd (isPrefixOf_of_append_len pat (c :: cs) b hq (by simp; omega)) hp
      simp [hn, ih _ _ h]

theorem spanLen_ne_lf (xs rest : Bytes) (h : (10 : UInt8) ∉ xs) :
    spanLen (· != 10) (xs ++ 10 :: rest) = xs.length := by
  induction xs with
  | nil => simp [spanLen]
  | cons x xs ih =>
    have hx : x ≠ 10 := fun e => h (by simp [e])
    have := ih (fun hm => h (List.mem_cons_of_mem _ hm))
    simp only [spanLen] at this ⊢
    simp [hx, this]

/-- a line comment followed by a line feed reads back as itself -/
theorem lexOne_line_comment (d rest : Bytes)
    (hp : [45, 45].isPrefixOf d = true ∨ [47, 47].isPrefixOf d = true)
    (hb : ¬ [45, 45, 91, 91].isPrefixOf d = true) (hlf : (10 : UInt8) ∉ d) :
    Spec.Lex.lexOne (d ++ [10] ++ rest) = some ({ kind := .comment, data := d }, d.length) := by
  have h1 : [45, 45, 91, 91].isPrefixOf (d ++ 10 :: rest) = false := by
    cases hq : [45, 45, 91, 91].isPrefixOf (d ++ 10 :: rest) with
    | false => rfl
    | true => exact absurd (isPrefixOf_of_append_sep 10 rest _ d (by decide) hq) hb
  have h2 : [45, 45].isPrefixOf (d ++ 10 :: rest) = true ∨ [47, 47].isPrefixOf (d ++ 10 :: rest) = true :=
    hp.imp (isPrefixOf_append _ d _) (isPrefixOf_append _ d _)
  obtain ⟨a, b, xs, rfl⟩ : ∃ a b xs, d = a :: b :: xs := by
    rcases d with _ | ⟨a, _ | ⟨b, xs⟩⟩
    · simp [List.isPrefixOf] at hp
    · simp [List.isPrefixOf] at hp
    · exact ⟨a, b, xs, rfl⟩
  have hxs : (10 : UInt8) ∉ xs := fun hm => hlf (List.mem_cons_of_mem _ (List.mem_cons_of_mem _ hm))
  have h3 := spanLen_ne_lf xs rest hxs
  simp only [List.append_assoc, List.singleton_append] at *
  simp only [Spec.Lex.lexOne, h1, h2]
  simp [h3]
  refine ⟨?_, by omega⟩
  exact take_prefix (a :: b :: xs) (10 :: rest) _ (by simp; omega)

/-- a block comment whose first `]]` is its end, followed by anything, reads back as itself -/
theorem lexOne_block_comment (body rest : Bytes)
    (h : findSub [93, 93] (body ++ [93, 93]) 0 = some body.length) :
    Spec.Lex.lexOne (([45, 45, 91, 91] ++ body ++ [93, 93]) ++ [10] ++ rest) =
      some ({ kind := .comment, data := [45, 45, 91, 91] ++ body ++ [93, 93] },
            ([45, 45, 91, 91] ++ body ++ [93, 93]).length) := by
  have h1 := findSub_append [93, 93] (10 :: rest) _ _ _ h
  simp only [List.append_assoc, List.cons_append, List.nil_append] at h1 ⊢
  simp [Spec.Lex.lexOne, List.isPrefixOf, h1]
  refine ⟨?_, by omega⟩
  have := take_prefix (91 :: 91 :: (body ++ [93, 93])) (10 :: rest) (4 + body.length) (by simp; omega)
  simpa using this

theorem symbolSet_no_lf : ∀ l ∈ Spec.Lex.symbolSet, l.head? ≠ some 10 := by
  decide

theorem longestPrefixIn_zero (set : List Bytes) (s : Bytes)
    (h : ∀ l ∈ set, ¬ (l.isPrefixOf s = true ∧ l.length > 0)) : Spec.Lex.longestPrefixIn set s = 0 := by
  unfold Spec.Lex.longestPrefixIn
  induction set with
  | nil => rfl
  | cons l ls ih =>
    have hl := h l (by simp)
    simp only [List.foldl_cons]
    rw [if_neg hl]
    exact ih (fun l' hm => h l' (List.mem_cons_of_mem _ hm))

theorem lexOne_lf (rest : Bytes) :
    Spec.Lex.lexOne ([10] ++ rest) = some ({ kind := .newline, data := [10] }, 1) := by
  have hs : Spec.Lex.longestPrefixIn Spec.Lex.symbolSet (10 :: rest) = 0 := by
    apply longestPrefixIn_zero
    intro l hm ⟨hp, hl⟩
    have := symbolSet_no_lf l hm
    cases l with
    | nil => simp at hl
    | cons x xs => simp [List.isPrefixOf] at hp; simp [hp.1] at this
  have hnum : Spec.Lex.numeralLen (10 :: rest) = none := by
    rcases rest with _ | ⟨r1, _ | ⟨r2, r3⟩⟩ <;>
      simp [Spec.Lex.numeralLen, Spec.Lex.maxOpt, mRadix, mRadixFrac, mDecimal, mDotDecimal, spanLen, isDigit]
  have hlab : mLabel (10 :: rest) = none := by
    rcases rest with _ | ⟨r1, _ | ⟨r2, r3⟩⟩ <;> simp [mLabel]
  have hword : Spec.Lex.wordTok (10 :: rest) = none := by
    simp [Spec.Lex.wordTok, mName, isIdentStart]
  have hsp : mSpace (10 :: rest) = none := by
    simp [mSpace, spanLen]
  have hnl : Spec.Lex.newlineLen (10 :: rest) = some 1 := by
    simp [Spec.Lex.newlineLen]
  simp only [List.singleton_append]
  simp [Spec.Lex.lexOne, List.isPrefixOf, hs, hnum, hlab, hword, hsp, hnl]

end Pico.C19L
