import PicoVerif.Lemmas.C09
/-! More lemmas for C09: `assemble` succeeds on every walk over the significant tokens of a range after which only
trivia follows (the converse of `assemble_sig`), and the consequences for the walk of a parser result. -/
namespace Pico.Ast
open Pico.Lex Pico.Peg

theorem mem_sigIdx (toks : Array Tok) (a b k : Nat) :
    k ∈ sigIdx toks a b ↔ a ≤ k ∧ k < b ∧ sig toks k = true := by
  unfold sigIdx
  rw [List.mem_filter, List.mem_range'_1]
  constructor
  · rintro ⟨⟨h1, h2⟩, h3⟩; exact ⟨h1, by omega, h3⟩
  · rintro ⟨h1, h2, h3⟩; exact ⟨⟨h1, by omega⟩, h3⟩

theorem sig_iff (toks : Array Tok) (k : Nat) :
    sig toks k = true ↔ ∃ h : k < toks.size, toks[k].trivia = false := by
  unfold sig
  split
  · rename_i h; simp [h]
  · rename_i h; simp [h]

theorem sigIdx_eq_nil_iff (toks : Array Tok) (a b : Nat) :
    sigIdx toks a b = [] ↔ ∀ k, a ≤ k → k < b → sig toks k = false := by
  constructor
  · intro h k h1 h2
    cases hs : sig toks k with
    | false => rfl
    | true =>
      have : k ∈ sigIdx toks a b := (mem_sigIdx toks a b k).2 ⟨h1, h2, hs⟩
      rw [h] at this; simp at this
  · intro h
    unfold sigIdx
    rw [List.filter_eq_nil_iff]
    intro k hk
    rw [List.mem_range'_1] at hk
    simp [h k hk.1 (by omega)]

/-- nothing significant from `p` on -/
theorem sigIdx_eq_nil_of_skip (toks : Array Tok) (p q : Nat) (h : skipTrivia toks p ≥ toks.size) :
    sigIdx toks p q = [] := by
  rw [sigIdx_eq_nil_iff]
  intro k h1 _
  cases hs : sig toks k with
  | false => rfl
  | true =>
    obtain ⟨hk, ht⟩ := (sig_iff toks k).1 hs
    have := skipTrivia_le_of_sig toks p k hk ht h1
    omega

theorem sigIdx_eq_nil_of_size_le (toks : Array Tok) (a b : Nat) (h : toks.size ≤ a) : sigIdx toks a b = [] := by
  rw [sigIdx_eq_nil_iff]
  intro k h1 _
  unfold sig
  rw [dif_neg (by omega)]

/-- when only trivia follows `p`, the significant tokens before `p` are all the significant tokens -/
theorem sigIdx_to_size (toks : Array Tok) (a p : Nat) (hap : a ≤ p) (h : skipTrivia toks p ≥ toks.size) :
    sigIdx toks a p = sigIdx toks a toks.size := by
  rcases Nat.le_total p toks.size with hp | hp
  · rw [← sigIdx_append toks hap hp, sigIdx_eq_nil_of_skip toks p _ h, List.append_nil]
  · rcases Nat.le_total a toks.size with ha | ha
    · rw [← sigIdx_append toks ha hp, sigIdx_eq_nil_of_size_le toks _ _ (Nat.le_refl _), List.append_nil]
    · rw [sigIdx_eq_nil_of_size_le toks _ _ ha, sigIdx_eq_nil_of_size_le toks _ _ ha]

theorem skip_ge_of_sigIdx_nil (toks : Array Tok) (pos p : Nat) (_hpp : pos ≤ p) (hnil : sigIdx toks pos p = [])
    (h : skipTrivia toks p ≥ toks.size) : skipTrivia toks pos ≥ toks.size := by
  rcases Nat.lt_or_ge (skipTrivia toks pos) toks.size with hj | hj
  · exfalso
    have hs := skipTrivia_sig toks pos hj
    have hge := skipTrivia_ge toks pos
    rcases Nat.lt_or_ge (skipTrivia toks pos) p with hlt | hge'
    · have := (sigIdx_eq_nil_iff toks pos p).1 hnil _ hge hlt
      rw [hs] at this; simp at this
    · obtain ⟨hk, ht⟩ := (sig_iff toks _).1 hs
      have := skipTrivia_le_of_sig toks p _ hk ht hge'
      omega
  · exact hj

theorem allTrivia_of_sigIdx_nil (toks : Array Tok) (a b : Nat) (h : sigIdx toks a b = []) :
    allTrivia toks a b = true := by
  rw [allTrivia_iff]
  intro k h1 h2 hk
  have := (sigIdx_eq_nil_iff toks a b).1 h k h1 h2
  simpa [sig, hk] using this

/-- splitting `sigIdx` at its first element -/
theorem sigIdx_cons (toks : Array Tok) (pos p i : Nat) (rest : List Nat) (h : sigIdx toks pos p = i :: rest) :
    pos ≤ i ∧ i < p ∧ sig toks i = true ∧ sigIdx toks pos i = [] ∧ rest = sigIdx toks (i + 1) p := by
  have hi : i ∈ sigIdx toks pos p := by rw [h]; simp
  obtain ⟨h1, h2, h3⟩ := (mem_sigIdx toks pos p i).1 hi
  obtain ⟨hk, ht⟩ := (sig_iff toks i).1 h3
  have hsplit : sigIdx toks pos p = sigIdx toks pos i ++ ([i] ++ sigIdx toks (i + 1) p) := by
    rw [← sigIdx_single toks i hk ht, sigIdx_append toks (Nat.le_succ i) (show i + 1 ≤ p by omega),
      sigIdx_append toks h1 (show i ≤ p by omega)]
  have hnil : sigIdx toks pos i = [] := by
    cases hq : sigIdx toks pos i with
    | nil => rfl
    | cons x xs =>
      exfalso
      have hx : x ∈ sigIdx toks pos i := by rw [hq]; simp
      have hxi := ((mem_sigIdx toks pos i x).1 hx).2.1
      rw [hsplit, hq] at h
      simp only [List.cons_append, List.cons.injEq] at h
      omega
  refine ⟨h1, h2, h3, hnil, ?_⟩
  rw [hsplit, hnil] at h
  simp only [List.nil_append, List.cons_append, List.cons.injEq, true_and] at h
  exact h.symm

/-- **the converse of `assemble_sig`**: a walk over exactly the significant tokens of `[pos, p)`, when only trivia
follows `p`, is assembled without error -/
theorem assemble_ok_of_sigIdx (fmt : RunFmt) (toks : Array Tok) (walk : List (Nat × Nat)) (pos p : Nat) (acc : Bytes)
    (hpp : pos ≤ p) (hw : walk.map (·.1) = sigIdx toks pos p) (hend : skipTrivia toks p ≥ toks.size) :
    ∃ out, assemble fmt toks walk pos acc = .ok out := by
  induction walk generalizing pos acc with
  | nil =>
    have := skip_ge_of_sigIdx_nil toks pos p hpp (by simpa using hw.symm) hend
    simp only [assemble]
    rw [if_neg (by omega)]
    exact ⟨_, rfl⟩
  | cons x rest ih =>
    obtain ⟨i, d⟩ := x
    simp only [List.map_cons] at hw
    obtain ⟨h1, h2, h3, h4, h5⟩ := sigIdx_cons toks pos p i _ hw.symm
    obtain ⟨hk, _⟩ := (sig_iff toks i).1 h3
    have hat := allTrivia_of_sigIdx_nil toks pos i h4
    simp only [assemble]
    rw [if_neg (by simp [hat]; omega)]
    exact ih (i + 1) _ (by omega) h5

/-- the indent walk of a list of trees visits their leaves -/
theorem flatMap_walkInd_fst (toks : Array Tok) (ts : List Tree) (d : Nat) :
    (ts.flatMap fun t => walkInd toks t d).map (·.1) = leavesL ts := by
  induction ts with
  | nil => simp [leavesL]
  | cons t rest ih =>
    rw [List.flatMap_cons, List.map_append, walkInd_fst, ih, leavesL]

/-- the indices of `sigIdx` name significant tokens -/
theorem sigIdx_trivia_false (toks : Array Tok) (a b i : Nat) (h : i ∈ sigIdx toks a b) :
    (toks.getD i default).trivia = false := by
  obtain ⟨_, _, h3⟩ := (mem_sigIdx toks a b i).1 h
  obtain ⟨hk, ht⟩ := (sig_iff toks i).1 h3
  rw [getD_default_eq toks i hk]; exact ht

/-- if `assemble` succeeds on a walk over the significant tokens of `[pos, p)`, only trivia follows `p` -/
theorem skip_ge_of_assemble_ok (fmt : RunFmt) (toks : Array Tok) (walk : List (Nat × Nat)) (pos p : Nat) (acc out : Bytes)
    (hpp : pos ≤ p) (hw : walk.map (·.1) = sigIdx toks pos p) (h : assemble fmt toks walk pos acc = .ok out) :
    skipTrivia toks p ≥ toks.size := by
  rcases Nat.lt_or_ge (skipTrivia toks p) toks.size with hj | hj
  · exfalso
    have hs := skipTrivia_sig toks p hj
    obtain ⟨hk, ht⟩ := (sig_iff toks _).1 hs
    have hge := skipTrivia_ge toks p
    obtain ⟨e, he⟩ := assemble_error_of_later_sig fmt toks walk pos acc (skipTrivia toks p) hj
      (by rw [getD_default_eq toks _ hk]; exact ht)
      (by
        intro i hi
        rw [hw] at hi
        have := ((mem_sigIdx toks pos p i).1 hi).2.1
        omega)
      (by omega)
    rw [he] at h; simp at h
  · exact hj

end Pico.Ast
