import PicoVerif.Model.Require
/-! Lemmas for C14: case analysis of a successful `evalCalls` step, prefix / nodup / membership invariants,
fuel monotonicity. -/
namespace Pico.Req
open Pico.Inc

theorem evalCalls_zero (w : World) (calls : List Call) (cur : Nat) (pkgs : List Pkg) :
    evalCalls w 0 calls cur pkgs = .error .fuel := by
  rw [evalCalls]

theorem evalCalls_nil (w : World) (f : Nat) (cur : Nat) (pkgs : List Pkg) :
    evalCalls w (f + 1) [] cur pkgs = .ok pkgs := by
  rw [evalCalls]

/-- what a successful step on a non-empty call list looks like -/
theorem evalCalls_cons_ok {w : World} {f : Nat} {c : Call} {rest : List Call} {cur : Nat} {pkgs pkgs' : List Pkg}
    (h : evalCalls w (f + 1) (c :: rest) cur pkgs = .ok pkgs') :
    ∃ p ugl, c = .ok (p, ugl) ∧ requireRejected p = false ∧
      ((pkgs.any (·.name == p) = true ∧ evalCalls w f rest cur pkgs = .ok pkgs') ∨
       (pkgs.any (·.name == p) = false ∧ ∃ fl mid, w.locate p cur = some fl ∧
          evalCalls w f (w.callsOf fl ugl) fl (pkgs ++ [{ name := p, file := fl, keepLoop := ugl }]) = .ok mid ∧
          evalCalls w f rest cur mid = .ok pkgs')) := by
  rcases c with e | ⟨p, ugl⟩
  · rw [evalCalls] at h
    cases h
  · rw [evalCalls] at h
    refine ⟨p, ugl, rfl, ?_⟩
    split at h
    · cases h
    · rename_i hr
      refine ⟨by simpa using hr, ?_⟩
      split at h
      · rename_i ha
        exact .inl ⟨ha, h⟩
      · rename_i ha
        refine .inr ⟨by simpa using ha, ?_⟩
        split at h
        · cases h
        · rename_i fl hl
          split at h
          · cases h
          · rename_i mid hm
            exact ⟨fl, mid, hl, hm, h⟩

theorem any_name_false_iff (pkgs : List Pkg) (p : Bytes) :
    pkgs.any (·.name == p) = false ↔ p ∉ pkgs.map (·.name) := by
  induction pkgs with
  | nil => simp
  | cons a t ih =>
    simp only [List.any_cons, Bool.or_eq_false_iff, ih, List.map_cons, List.mem_cons, not_or]
    constructor
    · rintro ⟨h1, h2⟩
      exact ⟨fun h => by simp [h] at h1, h2⟩
    · rintro ⟨h1, h2⟩
      exact ⟨by simpa using fun h => h1 h.symm, h2⟩

theorem any_name_true_iff (pkgs : List Pkg) (p : Bytes) :
    pkgs.any (·.name == p) = true ↔ p ∈ pkgs.map (·.name) := by
  have := any_name_false_iff pkgs p
  cases h : pkgs.any (·.name == p) <;> simp_all

theorem evalCalls_prefix (w : World) (fuel : Nat) : ∀ (calls : List Call) (cur : Nat) (pkgs pkgs' : List Pkg),
    evalCalls w fuel calls cur pkgs = .ok pkgs' → pkgs <+: pkgs' := by
  induction fuel with
  | zero => intro calls cur pkgs pkgs' h; rw [evalCalls_zero] at h; cases h
  | succ f ih =>
    intro calls cur pkgs pkgs' h
    cases calls with
    | nil => rw [evalCalls_nil] at h; cases h; exact List.prefix_refl _
    | cons c rest =>
      obtain ⟨p, ugl, -, -, h | h⟩ := evalCalls_cons_ok h
      · exact ih _ _ _ _ h.2
      · obtain ⟨-, fl, mid, -, h1, h2⟩ := h
        exact (List.prefix_append _ _).trans ((ih _ _ _ _ h1).trans (ih _ _ _ _ h2))

theorem evalCalls_nodup (w : World) (fuel : Nat) : ∀ (calls : List Call) (cur : Nat) (pkgs pkgs' : List Pkg),
    evalCalls w fuel calls cur pkgs = .ok pkgs' → (pkgs.map (·.name)).Nodup → (pkgs'.map (·.name)).Nodup := by
  induction fuel with
  | zero => intro calls cur pkgs pkgs' h; rw [evalCalls_zero] at h; cases h
  | succ f ih =>
    intro calls cur pkgs pkgs' h hn
    cases calls with
    | nil => rw [evalCalls_nil] at h; cases h; exact hn
    | cons c rest =>
      obtain ⟨p, ugl, -, -, h | h⟩ := evalCalls_cons_ok h
      · exact ih _ _ _ _ h.2 hn
      · obtain ⟨ha, fl, mid, -, h1, h2⟩ := h
        refine ih _ _ _ _ h2 (ih _ _ _ _ h1 ?_)
        rw [any_name_false_iff] at ha
        rw [List.map_append, List.nodup_append]
        refine ⟨hn, by simp, ?_⟩
        intro a ha' b hb
        simp at hb
        subst hb
        intro hab
        exact ha (hab ▸ ha')

theorem mem_names_of_prefix {pkgs pkgs' : List Pkg} (h : pkgs <+: pkgs') {p : Bytes}
    (hp : p ∈ pkgs.map (·.name)) : p ∈ pkgs'.map (·.name) := by
  obtain ⟨t, rfl⟩ := h
  simp only [List.map_append, List.mem_append]
  exact .inl hp

theorem evalCalls_all_registered (w : World) (fuel : Nat) : ∀ (calls : List Call) (cur : Nat) (pkgs pkgs' : List Pkg),
    evalCalls w fuel calls cur pkgs = .ok pkgs' →
    ∀ p ugl, (.ok (p, ugl) : Call) ∈ calls → p ∈ pkgs'.map (·.name) := by
  induction fuel with
  | zero => intro calls cur pkgs pkgs' h; rw [evalCalls_zero] at h; cases h
  | succ f ih =>
    intro calls cur pkgs pkgs' h p ugl hm
    cases calls with
    | nil => cases hm
    | cons c rest =>
      obtain ⟨p0, ugl0, hc, -, h | h⟩ := evalCalls_cons_ok h
      · rcases List.mem_cons.1 hm with hm | hm
        · rw [hc] at hm
          cases hm
          exact mem_names_of_prefix (evalCalls_prefix _ _ _ _ _ _ h.2) ((any_name_true_iff _ _).1 h.1)
        · exact ih _ _ _ _ h.2 p ugl hm
      · obtain ⟨-, fl, mid, -, h1, h2⟩ := h
        rcases List.mem_cons.1 hm with hm | hm
        · rw [hc] at hm
          cases hm
          refine mem_names_of_prefix ((evalCalls_prefix _ _ _ _ _ _ h1).trans (evalCalls_prefix _ _ _ _ _ _ h2)) ?_
          simp
        · exact ih _ _ _ _ h2 p ugl hm

theorem evalCalls_from_lookup (w : World) (fuel : Nat) : ∀ (calls : List Call) (cur : Nat) (pkgs pkgs' : List Pkg),
    evalCalls w fuel calls cur pkgs = .ok pkgs' →
    ∀ q ∈ pkgs', q ∈ pkgs ∨ ∃ from_, w.locate q.name from_ = some q.file := by
  induction fuel with
  | zero => intro calls cur pkgs pkgs' h; rw [evalCalls_zero] at h; cases h
  | succ f ih =>
    intro calls cur pkgs pkgs' h q hq
    cases calls with
    | nil => rw [evalCalls_nil] at h; cases h; exact .inl hq
    | cons c rest =>
      obtain ⟨p0, ugl0, hc, -, h | h⟩ := evalCalls_cons_ok h
      · exact ih _ _ _ _ h.2 q hq
      · obtain ⟨-, fl, mid, hl, h1, h2⟩ := h
        rcases ih _ _ _ _ h2 q hq with hq | hq
        · rcases ih _ _ _ _ h1 q hq with hq | hq
          · rcases List.mem_append.1 hq with hq | hq
            · exact .inl hq
            · simp at hq
              subst hq
              exact .inr ⟨cur, hl⟩
          · exact .inr hq
        · exact .inr hq

theorem evalCalls_fuel_mono (w : World) (k : Nat) (fuel : Nat) : ∀ (calls : List Call) (cur : Nat) (pkgs pkgs' : List Pkg),
    evalCalls w fuel calls cur pkgs = .ok pkgs' → evalCalls w (fuel + k) calls cur pkgs = .ok pkgs' := by
  induction fuel with
  | zero => intro calls cur pkgs pkgs' h; rw [evalCalls_zero] at h; cases h
  | succ f ih =>
    intro calls cur pkgs pkgs' h
    rw [Nat.add_right_comm]
    cases calls with
    | nil => rw [evalCalls_nil] at h ⊢; exact h
    | cons c rest =>
      obtain ⟨p0, ugl0, hc, hr, h' | h'⟩ := evalCalls_cons_ok h
      · subst hc
        rw [evalCalls]
        simp only [hr, h'.1, Bool.false_eq_true, if_false, if_true]
        exact ih _ _ _ _ h'.2
      · obtain ⟨ha, fl, mid, hl, h1, h2⟩ := h'
        subst hc
        rw [evalCalls]
        simp only [hr, ha, Bool.false_eq_true, if_false, hl, ih _ _ _ _ h1]
        exact ih _ _ _ _ h2

theorem evalCalls_arg_error (w : World) (post : List Call) (e : Err) (cur : Nat) (mid : List Pkg) (pre : List Call) :
    ∀ (fuel : Nat) (pkgs : List Pkg), evalCalls w fuel pre cur pkgs = .ok mid →
    ∃ e', evalCalls w fuel (pre ++ (.error e : Call) :: post) cur pkgs = .error e' := by
  induction pre with
  | nil =>
    intro fuel pkgs h
    cases fuel with
    | zero => rw [evalCalls_zero] at h; cases h
    | succ f => exact ⟨e, by rw [List.nil_append, evalCalls]⟩
  | cons c pre' ih =>
    intro fuel pkgs h
    cases fuel with
    | zero => rw [evalCalls_zero] at h; cases h
    | succ f =>
      obtain ⟨p0, ugl0, hc, hr, h' | h'⟩ := evalCalls_cons_ok h
      · subst hc
        obtain ⟨e', he⟩ := ih f pkgs h'.2
        refine ⟨e', ?_⟩
        rw [List.cons_append, evalCalls]
        simp only [hr, h'.1, Bool.false_eq_true, if_false, if_true]
        exact he
      · obtain ⟨ha, fl, mid', hl, h1, h2⟩ := h'
        subst hc
        obtain ⟨e', he⟩ := ih f mid' h2
        refine ⟨e', ?_⟩
        rw [List.cons_append, evalCalls]
        simp only [hr, ha, Bool.false_eq_true, if_false, hl, h1]
        exact he

theorem evalCalls_missing_file (w : World) (fuel : Nat) (p : Bytes) (ugl : Bool) (rest : List Call) (cur : Nat)
    (pkgs : List Pkg) (hnew : p ∉ pkgs.map (·.name)) (hloc : w.locate p cur = none) :
    ∃ e, evalCalls w fuel ((.ok (p, ugl) : Call) :: rest) cur pkgs = .error e := by
  cases fuel with
  | zero => exact ⟨_, evalCalls_zero _ _ _ _⟩
  | succ f =>
    rw [evalCalls]
    rw [← any_name_false_iff] at hnew
    simp only [hnew, hloc, Bool.false_eq_true, if_false]
    split
    · exact ⟨_, rfl⟩
    · exact ⟨_, rfl⟩

end Pico.Req
