import PicoVerif.Model.PegAdj
import PicoVerif.Lemmas.PegCover
/-! Soundness of the adjacency analysis `Adj.summ` for EVERY grammar: whatever `Peg.run` accepts is a word of the
grammar's context-free language (predicates ignored), and every two tokens standing next to each other in such a word
are matched by a pair of patterns that the analysis lists. -/
namespace Pico.Adj
open Pico.Peg Pico.Lex

/-- token sequences a grammar expression can accept when every predicate (`notAhead`, `prevTokIs`, the fence,
`filterTop`, ordered choice) is ignored: the context-free over-approximation of `Peg.run` -/
inductive Lang (gram : Nat → G) : G → List Tok → Prop
  | eps : Lang gram .eps []
  | tok (p : Pat) (t : Tok) : p.matches t = true → Lang gram (.tok p) [t]
  | seq {a b u v} : Lang gram a u → Lang gram b v → Lang gram (.seq a b) (u ++ v)
  | altL {a b u} : Lang gram a u → Lang gram (.alt a b) u
  | altR {a b u} : Lang gram b u → Lang gram (.alt a b) u
  | starNil {g} : Lang gram (.star g) []
  | starCons {g u v} : Lang gram g u → Lang gram (.star g) v → Lang gram (.star g) (u ++ v)
  | nt {n u} : Lang gram (gram n) u → Lang gram (.nt n) u
  | hard {g u} : Lang gram g u → Lang gram (.hard g) u
  | node {k g u} : Lang gram g u → Lang gram (.node k g) u
  | chain {f s u v} : Lang gram f u → Lang gram (.star s) v → Lang gram (.chain f s) (u ++ v)
  | fence {g u} : Lang gram g u → Lang gram (.fence g) u
  | prevTokIs (p : Pat) : Lang gram (.prevTokIs p) []
  | notAhead (g : G) : Lang gram (.notAhead g) []
  | filterTop {ks g u} : Lang gram g u → Lang gram (.filterTop ks g) u

/-- the tokens at a list of positions -/
def toksAt (toks : Array Tok) (is : List Nat) : List Tok := is.filterMap (toks[·]?)

/-- what a summary claims about a word -/
structure Ok (cls : List Pat) (sm : Sm) (u : List Tok) : Prop where
  null : u = [] → sm.nullable = true
  first : ∀ t, u.head? = some t → ∃ p, p.matches t = true ∧ sm.first.testBit (idx cls p) = true
  last : ∀ t, u.getLast? = some t → ∃ p, p.matches t = true ∧ sm.last.testBit (idx cls p) = true
  adj : ∀ i a b, u[i]? = some a → u[i + 1]? = some b →
    ∃ p q, p.matches a = true ∧ q.matches b = true ∧ sm.adj.testBit (idx cls p * (cls.length + 1) + idx cls q) = true

theorem toksAt_append (toks : Array Tok) (a b : List Nat) :
    toksAt toks (a ++ b) = toksAt toks a ++ toksAt toks b := by
  simp [toksAt, List.filterMap_append]

theorem toksAt_nil (toks : Array Tok) : toksAt toks [] = [] := rfl

theorem Lang.starOne {gram : Nat → G} {g : G} {u : List Tok} (h : Lang gram g u) : Lang gram (.star g) u := by
  have := Lang.starCons h (Lang.starNil (gram := gram) (g := g))
  simpa using this

theorem run_lang_aux (gram : Nat → G) (toks : Array Tok) : ∀ fuel,
    (∀ g st ts st', run gram toks fuel g st = .ok (some (ts, st')) → Lang gram g (toksAt toks (leavesL ts))) ∧
    (∀ sfx acc st ts st', run.chainLoop gram toks fuel sfx acc st = .ok (some (ts, st')) →
        ∃ v, toksAt toks (leavesL ts) = toksAt toks (leavesL acc) ++ v ∧ Lang gram (.star sfx) v) := by
  intro fuel
  induction fuel with
  | zero => constructor <;> intros <;> simp_all [run, run.chainLoop]
  | succ n ih =>
    obtain ⟨ihR, ihC⟩ := ih
    constructor
    · intro g st ts st' h
      cases g with
      | eps => simp [run] at h; obtain ⟨rfl, rfl⟩ := h; exact Lang.eps
      | tok p =>
        simp only [run] at h
        by_cases hj : skipTrivia toks st.pos < toks.size
        · simp only [hj, dite_true] at h
          by_cases hm : (p.matches toks[skipTrivia toks st.pos] && fenceOk st.maxPos (skipTrivia toks st.pos)) = true
          · simp only [hm, if_true] at h
            simp at h; obtain ⟨rfl, rfl⟩ := h
            have hm1 : p.matches toks[skipTrivia toks st.pos] = true := by
              simp only [Bool.and_eq_true] at hm; exact hm.1
            have : toksAt toks (leavesL [Tree.leaf (skipTrivia toks st.pos)]) = [toks[skipTrivia toks st.pos]] := by
              simp [toksAt, leavesL, Tree.leaves, hj]
            rw [this]
            exact Lang.tok p _ hm1
          · simp [hm] at h
        · simp [hj] at h
      | seq a b =>
        simp only [run] at h
        split at h <;> try simp at h
        rename_i ta st1 ha
        split at h <;> try simp at h
        rename_i tb st2 hb
        obtain ⟨rfl, rfl⟩ := h
        rw [leavesL_append, toksAt_append]
        exact Lang.seq (ihR _ _ _ _ ha) (ihR _ _ _ _ hb)
      | alt a b =>
        simp only [run] at h
        split at h
        · simp at h
        · rename_i r ha; simp at h; subst h; exact Lang.altL (ihR _ _ _ _ ha)
        · exact Lang.altR (ihR _ _ _ _ h)
      | star g =>
        simp only [run] at h
        split at h
        · simp at h
        · simp at h; obtain ⟨rfl, rfl⟩ := h; exact Lang.starNil
        · rename_i t1 st1 h1
          split at h
          · simp at h; obtain ⟨rfl, rfl⟩ := h; exact (ihR _ _ _ _ h1).starOne
          · split at h
            · simp at h
            · simp at h; obtain ⟨rfl, rfl⟩ := h; exact (ihR _ _ _ _ h1).starOne
            · rename_i t2 st2 h2
              simp at h; obtain ⟨rfl, rfl⟩ := h
              rw [leavesL_append, toksAt_append]
              exact Lang.starCons (ihR _ _ _ _ h1) (ihR _ _ _ _ h2)
      | nt k => simp only [run] at h; exact Lang.nt (ihR _ _ _ _ h)
      | hard g =>
        simp only [run] at h
        split at h <;> try simp at h
        rename_i r hg; subst h; exact Lang.hard (ihR _ _ _ _ hg)
      | node k g =>
        simp only [run] at h
        split at h <;> try simp at h
        rename_i ts1 st1 hg
        obtain ⟨rfl, rfl⟩ := h
        have := ihR _ _ _ _ hg
        have e : leavesL [Tree.node k st.pos st1.pos ts1] = leavesL ts1 := by simp [leavesL, Tree.leaves]
        rw [e]
        exact Lang.node this
      | chain first sfx =>
        simp only [run] at h
        split at h <;> try simp at h
        rename_i t1 st1 h1
        obtain ⟨v, hv, hl⟩ := ihC _ _ _ _ _ h
        rw [hv]
        exact Lang.chain (ihR _ _ _ _ h1) hl
      | fence g =>
        simp only [run] at h
        split at h <;> try simp at h
        rename_i ts1 st1 hg
        obtain ⟨rfl, rfl⟩ := h
        exact Lang.fence (ihR _ _ _ _ hg)
      | prevTokIs p =>
        simp only [run] at h
        split at h
        · split at h
          · simp at h; obtain ⟨rfl, rfl⟩ := h; exact Lang.prevTokIs p
          · simp at h
        · simp at h
      | notAhead g =>
        simp only [run] at h
        split at h <;> try simp at h
        obtain ⟨rfl, rfl⟩ := h; exact Lang.notAhead g
      | filterTop ks g =>
        simp only [run] at h
        split at h <;> try simp at h
        rename_i ts1 st1 hg
        by_cases hk : topKindIn ks ts1 = true
        · simp [hk] at h; obtain ⟨rfl, rfl⟩ := h; exact Lang.filterTop (ihR _ _ _ _ hg)
        · simp [hk] at h
    · intro sfx acc st ts st' h
      simp only [run.chainLoop] at h
      split at h
      · simp at h
      · simp at h; obtain ⟨rfl, rfl⟩ := h; exact ⟨[], by simp, Lang.starNil⟩
      · rename_i ts1 st1 h1
        have hl := ihR _ _ _ _ h1
        split at h
        · simp at h; obtain ⟨rfl, rfl⟩ := h
          exact ⟨_, by rw [leavesL_reparent, toksAt_append], hl.starOne⟩
        · obtain ⟨v, hv, hs⟩ := ihC _ _ _ _ _ h
          refine ⟨toksAt toks (leavesL ts1) ++ v, ?_, Lang.starCons hl hs⟩
          rw [hv, leavesL_reparent, toksAt_append, List.append_assoc]

/-- the leaves of what `run` returns spell a word of the grammar's language -/
theorem run_lang (gram : Nat → G) (toks : Array Tok) (fuel : Nat) (g : G) (st st' : PSt) (ts : List Tree)
    (h : run gram toks fuel g st = .ok (some (ts, st'))) : Lang gram g (toksAt toks (leavesL ts)) :=
  (run_lang_aux gram toks fuel).1 g st ts st' h

theorem idx_le (cls : List Pat) (p : Pat) : idx cls p ≤ cls.length := by
  induction cls with
  | nil => simp [idx]
  | cons q rest ih => simp only [idx, List.length_cons]; split <;> omega

theorem pairs_foldl_mono (w a b : Nat) (l : List Nat) (acc k : Nat) (h : acc.testBit k = true) :
    (l.foldl (fun acc i => if a.testBit i then acc ||| (b <<< (i * w)) else acc) acc).testBit k = true := by
  induction l generalizing acc with
  | nil => simpa using h
  | cons x xs ih =>
    simp only [List.foldl_cons]
    apply ih
    split
    · simp [Nat.testBit_or, h]
    · exact h

theorem pairs_foldl_set (w a b : Nat) (l : List Nat) (acc i j : Nat) (hi : i ∈ l)
    (ha : a.testBit i = true) (hb : b.testBit j = true) :
    (l.foldl (fun acc i => if a.testBit i then acc ||| (b <<< (i * w)) else acc) acc).testBit (i * w + j) = true := by
  induction l generalizing acc with
  | nil => simp at hi
  | cons x xs ih =>
    simp only [List.foldl_cons]
    rcases List.mem_cons.1 hi with rfl | hi'
    · apply pairs_foldl_mono
      simp [ha, Nat.testBit_or, Nat.testBit_shiftLeft, hb]
    · exact ih _ hi'

theorem pairs_sound (w a b i j : Nat) (ha : a.testBit i = true) (hi : i < w) (hb : b.testBit j = true) :
    (pairs w a b).testBit (i * w + j) = true :=
  pairs_foldl_set w a b (List.range w) 0 i j (List.mem_range.2 hi) ha hb

theorem sub_testBit {x y : Nat} (h : sub x y = true) (k : Nat) (hx : x.testBit k = true) : y.testBit k = true := by
  have e : x &&& y = x := by simpa [sub] using h
  have := congrArg (fun z => Nat.testBit z k) e
  simp only [Nat.testBit_and, hx, Bool.true_and] at this
  exact this

theorem Ok.mono {cls : List Pat} {a b : Sm} {u : List Tok} (hle : a.le b = true) (h : Ok cls a u) : Ok cls b u := by
  simp only [Sm.le, Bool.and_eq_true, Bool.or_eq_true, Bool.not_eq_true'] at hle
  obtain ⟨⟨⟨hn, hf⟩, hl⟩, hadj⟩ := hle
  refine ⟨?_, ?_, ?_, ?_⟩
  · intro hu
    have := h.null hu
    rcases hn with hn | hn
    · rw [this] at hn; cases hn
    · exact hn
  · intro t ht
    obtain ⟨p, hp, hb⟩ := h.first t ht
    exact ⟨p, hp, sub_testBit hf _ hb⟩
  · intro t ht
    obtain ⟨p, hp, hb⟩ := h.last t ht
    exact ⟨p, hp, sub_testBit hl _ hb⟩
  · intro i x y hx hy
    obtain ⟨p, q, hp, hq, hb⟩ := h.adj i x y hx hy
    exact ⟨p, q, hp, hq, sub_testBit hadj _ hb⟩

theorem Ok.eps_nil (cls : List Pat) : Ok cls Sm.eps [] :=
  ⟨fun _ => rfl, by simp, by simp, by simp⟩

theorem Ok.append {cls : List Pat} {a b c : Sm} {u v : List Tok} (ha : Ok cls a u) (hb : Ok cls b v)
    (hnull : a.nullable = true → b.nullable = true → c.nullable = true)
    (hf1 : ∀ k, a.first.testBit k = true → c.first.testBit k = true)
    (hf2 : a.nullable = true → ∀ k, b.first.testBit k = true → c.first.testBit k = true)
    (hl1 : ∀ k, b.last.testBit k = true → c.last.testBit k = true)
    (hl2 : b.nullable = true → ∀ k, a.last.testBit k = true → c.last.testBit k = true)
    (hadj1 : ∀ k, a.adj.testBit k = true → c.adj.testBit k = true)
    (hadj2 : ∀ k, b.adj.testBit k = true → c.adj.testBit k = true)
    (hadj3 : ∀ i j, i < cls.length + 1 → a.last.testBit i = true → b.first.testBit j = true →
      c.adj.testBit (i * (cls.length + 1) + j) = true) : Ok cls c (u ++ v) := by
  refine ⟨?_, ?_, ?_, ?_⟩
  · intro h
    have h' := List.append_eq_nil_iff.1 h
    exact hnull (ha.null h'.1) (hb.null h'.2)
  · intro t ht
    cases u with
    | nil =>
      simp only [List.nil_append] at ht
      obtain ⟨p, hp, hbit⟩ := hb.first t ht
      exact ⟨p, hp, hf2 (ha.null rfl) _ hbit⟩
    | cons x xs =>
      have : (x :: xs).head? = some t := by simpa using ht
      obtain ⟨p, hp, hbit⟩ := ha.first t this
      exact ⟨p, hp, hf1 _ hbit⟩
  · intro t ht
    rw [List.getLast?_append] at ht
    cases hv : v.getLast? with
    | none =>
      have hv' : v = [] := List.getLast?_eq_none_iff.1 hv
      rw [hv] at ht
      simp only [Option.none_or] at ht
      obtain ⟨p, hp, hbit⟩ := ha.last t ht
      exact ⟨p, hp, hl2 (hb.null hv') _ hbit⟩
    | some t' =>
      rw [hv] at ht
      simp only [Option.some_or, Option.some.injEq] at ht
      subst ht
      obtain ⟨p, hp, hbit⟩ := hb.last _ hv
      exact ⟨p, hp, hl1 _ hbit⟩
  · intro i x y hx hy
    by_cases h1 : i + 1 < u.length
    · rw [List.getElem?_append_left (by omega)] at hx
      rw [List.getElem?_append_left h1] at hy
      obtain ⟨p, q, hp, hq, hbit⟩ := ha.adj i x y hx hy
      exact ⟨p, q, hp, hq, hadj1 _ hbit⟩
    · by_cases h2 : u.length ≤ i
      · rw [List.getElem?_append_right h2] at hx
        rw [List.getElem?_append_right (by omega)] at hy
        have e : i + 1 - u.length = (i - u.length) + 1 := by omega
        rw [e] at hy
        obtain ⟨p, q, hp, hq, hbit⟩ := hb.adj _ x y hx hy
        exact ⟨p, q, hp, hq, hadj2 _ hbit⟩
      · have e : i + 1 = u.length := by omega
        rw [List.getElem?_append_left (by omega)] at hx
        rw [List.getElem?_append_right (by omega)] at hy
        have hx' : u.getLast? = some x := by
          rw [List.getLast?_eq_getElem?]
          have : u.length - 1 = i := by omega
          rw [this]; exact hx
        have hy' : v.head? = some y := by
          rw [List.head?_eq_getElem?]
          have : i + 1 - u.length = 0 := by omega
          rw [this] at hy; exact hy
        obtain ⟨p, hp, hpb⟩ := ha.last x hx'
        obtain ⟨q, hq, hqb⟩ := hb.first y hy'
        exact ⟨p, q, hp, hq, hadj3 _ _ (Nat.lt_succ_of_le (idx_le cls p)) hpb hqb⟩

theorem Ok.seq {cls : List Pat} {a b : Sm} {u v : List Tok} (ha : Ok cls a u) (hb : Ok cls b v) :
    Ok cls (a.seq (cls.length + 1) b) (u ++ v) := by
  apply Ok.append ha hb
  · intro h1 h2; simp [Sm.seq, h1, h2]
  · intro k h; simp [Sm.seq, Nat.testBit_or, h]
  · intro hn k h; simp [Sm.seq, Nat.testBit_or, h, hn]
  · intro k h; simp [Sm.seq, Nat.testBit_or, h]
  · intro hn k h; simp [Sm.seq, Nat.testBit_or, h, hn]
  · intro k h; simp [Sm.seq, Nat.testBit_or, h]
  · intro k h; simp [Sm.seq, Nat.testBit_or, h]
  · intro i j hi h1 h2
    simp only [Sm.seq, Nat.testBit_or, pairs_sound _ _ _ _ _ h1 hi h2, Bool.or_true]

theorem Ok.starCons {cls : List Pat} {a : Sm} {u v : List Tok} (ha : Ok cls a u)
    (hb : Ok cls (a.star (cls.length + 1)) v) : Ok cls (a.star (cls.length + 1)) (u ++ v) := by
  apply Ok.append ha hb
  · intro _ _; rfl
  · intro k h; exact h
  · intro _ k h; exact h
  · intro k h; exact h
  · intro _ k h; exact h
  · intro k h; simp [Sm.star, Nat.testBit_or, h]
  · intro k h; exact h
  · intro i j hi h1 h2
    have h2' : a.first.testBit j = true := h2
    simp only [Sm.star, Nat.testBit_or, pairs_sound _ _ _ _ _ h1 hi h2', Bool.or_true]

theorem Ok.alt_left {cls : List Pat} {a b : Sm} {u : List Tok} (ha : Ok cls a u) : Ok cls (a.alt b) u := by
  refine ⟨?_, ?_, ?_, ?_⟩
  · intro h; simp [Sm.alt, ha.null h]
  · intro t ht
    obtain ⟨p, hp, hbit⟩ := ha.first t ht
    exact ⟨p, hp, by simp [Sm.alt, Nat.testBit_or, hbit]⟩
  · intro t ht
    obtain ⟨p, hp, hbit⟩ := ha.last t ht
    exact ⟨p, hp, by simp [Sm.alt, Nat.testBit_or, hbit]⟩
  · intro i x y hx hy
    obtain ⟨p, q, hp, hq, hbit⟩ := ha.adj i x y hx hy
    exact ⟨p, q, hp, hq, by simp [Sm.alt, Nat.testBit_or, hbit]⟩

theorem Ok.alt_right {cls : List Pat} {a b : Sm} {u : List Tok} (hb : Ok cls b u) : Ok cls (a.alt b) u := by
  refine ⟨?_, ?_, ?_, ?_⟩
  · intro h; simp [Sm.alt, hb.null h]
  · intro t ht
    obtain ⟨p, hp, hbit⟩ := hb.first t ht
    exact ⟨p, hp, by simp [Sm.alt, Nat.testBit_or, hbit]⟩
  · intro t ht
    obtain ⟨p, hp, hbit⟩ := hb.last t ht
    exact ⟨p, hp, by simp [Sm.alt, Nat.testBit_or, hbit]⟩
  · intro i x y hx hy
    obtain ⟨p, q, hp, hq, hbit⟩ := hb.adj i x y hx hy
    exact ⟨p, q, hp, hq, by simp [Sm.alt, Nat.testBit_or, hbit]⟩

theorem Ok.star_nil (cls : List Pat) (a : Sm) : Ok cls (a.star (cls.length + 1)) [] :=
  ⟨fun _ => rfl, by simp, by simp, by simp⟩

theorem Ok.tok (cls : List Pat) (p : Pat) (t : Tok) (h : p.matches t = true) :
    Ok cls ⟨false, 1 <<< idx cls p, 1 <<< idx cls p, 0⟩ [t] := by
  refine ⟨by simp, ?_, ?_, ?_⟩
  · intro t' ht
    simp at ht; subst ht
    exact ⟨p, h, by simp [Nat.one_shiftLeft, Nat.testBit_two_pow_self]⟩
  · intro t' ht
    simp at ht; subst ht
    exact ⟨p, h, by simp [Nat.one_shiftLeft, Nat.testBit_two_pow_self]⟩
  · intro i x y hx hy
    simp at hy

/-- the analysis is sound for every word of the language, given a table closed under the grammar -/
theorem lang_ok (cls : List Pat) (gram : Nat → G) (tbl : List Sm) (hc : closed cls gram tbl = true)
    (hb : ∀ n, tbl.length ≤ n → gram n = .notAhead .eps) (g : G) (u : List Tok) (h : Lang gram g u) :
    Ok cls (summ cls (tblOf tbl) g) u := by
  induction h with
  | eps => exact Ok.eps_nil cls
  | tok p t hm => exact Ok.tok cls p t hm
  | seq _ _ iha ihb => exact Ok.seq iha ihb
  | altL _ ih => exact Ok.alt_left ih
  | altR _ ih => exact Ok.alt_right ih
  | starNil => exact Ok.star_nil cls _
  | starCons _ _ ih1 ih2 => exact Ok.starCons ih1 ih2
  | @nt n u h1 ih =>
    simp only [summ]
    by_cases hn : n < tbl.length
    · have hc' := hc
      simp only [closed, List.all_eq_true, List.mem_range] at hc'
      exact Ok.mono (hc' n hn) ih
    · have hn' : tbl.length ≤ n := Nat.le_of_not_lt hn
      rw [hb n hn'] at h1
      cases h1
      have : tblOf tbl n = Sm.eps := by simp [tblOf, List.getD, List.getElem?_eq_none hn']
      rw [this]
      exact Ok.eps_nil cls
  | hard _ ih => exact ih
  | node _ ih => exact ih
  | chain _ _ ih1 ih2 => exact Ok.seq ih1 ih2
  | fence _ ih => exact ih
  | prevTokIs p => exact Ok.eps_nil cls
  | notAhead g => exact Ok.eps_nil cls
  | filterTop _ ih => exact ih

/-- **adjacency soundness** (every grammar): two tokens that are neighbours among the leaves of an accepted parse are
matched by a pair of patterns listed in the analysis of the start expression. -/
theorem run_adj (cls : List Pat) (gram : Nat → G) (tbl : List Sm) (hc : closed cls gram tbl = true)
    (hb : ∀ n, tbl.length ≤ n → gram n = .notAhead .eps)
    (toks : Array Tok) (fuel : Nat) (g : G) (st st' : PSt) (ts : List Tree)
    (h : run gram toks fuel g st = .ok (some (ts, st'))) :
    ∀ i a b, (toksAt toks (leavesL ts))[i]? = some a → (toksAt toks (leavesL ts))[i + 1]? = some b →
      ∃ p q, p.matches a = true ∧ q.matches b = true ∧
        (summ cls (tblOf tbl) g).adj.testBit (idx cls p * (cls.length + 1) + idx cls q) = true :=
  (lang_ok cls gram tbl hc hb g _ (run_lang gram toks fuel g st st' ts h)).adj

end Pico.Adj
