import PicoVerif.Model.Peg
namespace Pico.Peg
open Pico.Lex

def sig (toks : Array Tok) (i : Nat) : Bool := if h : i < toks.size then !toks[i].trivia else false

def sigIdx (toks : Array Tok) (a b : Nat) : List Nat := (List.range' a (b - a)).filter (sig toks)

theorem sigIdx_self (toks : Array Tok) (a : Nat) : sigIdx toks a a = [] := by simp [sigIdx]

theorem sigIdx_append (toks : Array Tok) {a b c : Nat} (hab : a ≤ b) (hbc : b ≤ c) :
    sigIdx toks a b ++ sigIdx toks b c = sigIdx toks a c := by
  unfold sigIdx
  rw [← List.filter_append]
  congr 1
  have : c - a = (b - a) + (c - b) := by omega
  rw [this, ← List.range'_append_1]
  congr 2; omega

theorem skipTrivia_ge (toks : Array Tok) (i : Nat) : i ≤ skipTrivia toks i := by
  fun_induction skipTrivia toks i <;> omega

theorem skipTrivia_sig (toks : Array Tok) (i : Nat) (h : skipTrivia toks i < toks.size) :
    sig toks (skipTrivia toks i) = true := by
  fun_induction skipTrivia toks i with
  | case1 i hi ht ih => exact ih h
  | case2 i hi ht => simp [sig, hi, ht]
  | case3 i hi => omega

theorem sigIdx_skip (toks : Array Tok) (i : Nat) : sigIdx toks i (skipTrivia toks i) = [] := by
  fun_induction skipTrivia toks i with
  | case1 i hi ht ih =>
    have h1 := skipTrivia_ge toks (i+1)
    rw [← sigIdx_append toks (show i ≤ i+1 by omega) h1, ih]
    simp [sigIdx, sig, hi, ht]
  | case2 i hi ht => exact sigIdx_self _ _
  | case3 i hi => exact sigIdx_self _ _

theorem sigIdx_tok (toks : Array Tok) (i : Nat) (h : skipTrivia toks i < toks.size) :
    sigIdx toks i (skipTrivia toks i + 1) = [skipTrivia toks i] := by
  have h1 := skipTrivia_ge toks i
  rw [← sigIdx_append toks h1 (Nat.le_succ _), sigIdx_skip]
  simp [sigIdx, skipTrivia_sig toks i h]

theorem leavesL_reparent (acc ts : List Tree) : leavesL (reparent acc ts) = leavesL acc ++ leavesL ts := by
  unfold reparent
  split
  · simp [leavesL, Tree.leaves, leavesL_append]
  · exact leavesL_append _ _

def Cover (toks : Array Tok) (st : PSt) (ts : List Tree) (st' : PSt) : Prop :=
  st.pos ≤ st'.pos ∧ leavesL ts = sigIdx toks st.pos st'.pos

theorem Cover.trans {toks : Array Tok} {s1 s2 s3 : PSt} {t1 t2 : List Tree}
    (h1 : Cover toks s1 t1 s2) (h2 : Cover toks s2 t2 s3) : Cover toks s1 (t1 ++ t2) s3 := by
  refine ⟨Nat.le_trans h1.1 h2.1, ?_⟩
  rw [leavesL_append, h1.2, h2.2, sigIdx_append toks h1.1 h2.1]

theorem Cover.refl (toks : Array Tok) (st : PSt) : Cover toks st [] st :=
  ⟨Nat.le_refl _, by simp [leavesL, sigIdx_self]⟩

theorem cover (gram : Nat → G) (toks : Array Tok) : ∀ fuel,
    (∀ g st ts st', run gram toks fuel g st = .ok (some (ts, st')) → Cover toks st ts st') ∧
    (∀ sfx acc st0 st ts st', Cover toks st0 acc st →
        run.chainLoop gram toks fuel sfx acc st = .ok (some (ts, st')) → Cover toks st0 ts st') := by
  intro fuel
  induction fuel with
  | zero => constructor <;> intros <;> simp_all [run, run.chainLoop]
  | succ n ih =>
    obtain ⟨ihR, ihC⟩ := ih
    constructor
    · intro g st ts st' h
      cases g with
      | eps => simp [run] at h; obtain ⟨rfl, rfl⟩ := h; exact Cover.refl _ _
      | tok p =>
        simp only [run] at h
        by_cases hj : skipTrivia toks st.pos < toks.size
        · simp only [hj, dite_true] at h
          by_cases hm : (p.matches toks[skipTrivia toks st.pos] && fenceOk st.maxPos (skipTrivia toks st.pos)) = true
          · simp only [hm, if_true] at h
            simp at h; obtain ⟨rfl, rfl⟩ := h
            exact ⟨by have := skipTrivia_ge toks st.pos; simp; omega, by simp [leavesL, Tree.leaves, sigIdx_tok toks st.pos hj]⟩
          · simp [hm] at h
        · simp [hj] at h
      | seq a b =>
        simp only [run] at h
        split at h <;> try simp at h
        rename_i ta st1 ha
        split at h <;> try simp at h
        rename_i tb st2 hb
        obtain ⟨rfl, rfl⟩ := h
        exact (ihR _ _ _ _ ha).trans (ihR _ _ _ _ hb)
      | alt a b =>
        simp only [run] at h
        split at h
        · simp at h
        · rename_i r ha; simp at h; subst h; exact ihR _ _ _ _ ha
        · exact ihR _ _ _ _ h
      | star g =>
        simp only [run] at h
        split at h
        · simp at h
        · simp at h; obtain ⟨rfl, rfl⟩ := h; exact Cover.refl _ _
        · rename_i t1 st1 h1
          split at h
          · simp at h; obtain ⟨rfl, rfl⟩ := h; exact ihR _ _ _ _ h1
          · split at h
            · simp at h
            · simp at h; obtain ⟨rfl, rfl⟩ := h; exact ihR _ _ _ _ h1
            · rename_i t2 st2 h2
              simp at h; obtain ⟨rfl, rfl⟩ := h
              exact (ihR _ _ _ _ h1).trans (ihR _ _ _ _ h2)
      | nt k => simp only [run] at h; exact ihR _ _ _ _ h
      | hard g =>
        simp only [run] at h
        split at h <;> try simp at h
        rename_i r hg; subst h; exact ihR _ _ _ _ hg
      | node k g =>
        simp only [run] at h
        split at h <;> try simp at h
        rename_i ts1 st1 hg
        obtain ⟨rfl, rfl⟩ := h
        have := ihR _ _ _ _ hg
        exact ⟨this.1, by simpa [leavesL, Tree.leaves] using this.2⟩
      | chain first sfx =>
        simp only [run] at h
        split at h <;> try simp at h
        rename_i t1 st1 h1
        exact ihC _ _ _ _ _ _ (ihR _ _ _ _ h1) h
      | fence g =>
        simp only [run] at h
        split at h <;> try simp at h
        rename_i ts1 st1 hg
        obtain ⟨rfl, rfl⟩ := h
        have := ihR _ _ _ _ hg
        exact ⟨this.1, this.2⟩
      | prevTokIs p =>
        simp only [run] at h
        split at h
        · split at h
          · simp at h; obtain ⟨rfl, rfl⟩ := h; exact Cover.refl _ _
          · simp at h
        · simp at h
      | notAhead g =>
        simp only [run] at h
        split at h <;> try simp at h
        obtain ⟨rfl, rfl⟩ := h; exact Cover.refl _ _
      | filterTop ks g =>
        simp only [run] at h
        split at h <;> try simp at h
        rename_i ts1 st1 hg
        by_cases hk : topKindIn ks ts1 = true
        · simp [hk] at h; obtain ⟨rfl, rfl⟩ := h; exact ihR _ _ _ _ hg
        · simp [hk] at h
    · intro sfx acc st0 st ts st' hacc h
      simp only [run.chainLoop] at h
      split at h
      · simp at h
      · simp at h; obtain ⟨rfl, rfl⟩ := h; exact hacc
      · rename_i ts1 st1 h1
        have hc := ihR _ _ _ _ h1
        have hacc' : Cover toks st0 (reparent acc ts1) st1 := by
          refine ⟨Nat.le_trans hacc.1 hc.1, ?_⟩
          rw [leavesL_reparent, hacc.2, hc.2, sigIdx_append toks hacc.1 hc.1]
        split at h
        · simp at h; obtain ⟨rfl, rfl⟩ := h; exact hacc'
        · exact ihC _ _ _ _ _ _ hacc' h

end Pico.Peg
