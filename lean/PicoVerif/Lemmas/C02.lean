import PicoVerif.Model.Writers
/-! Helper lemmas for C02 (name factory): injectivity of `nameForId`, totality of `alloc`, and the
state invariant of `getShortName`. -/
namespace Pico.C02L
open Pico.Wr

theorem nameChars_length : Gen.nameChars.length = 26 := by decide

theorem ch_inj : ∀ i, i < 26 → ∀ j, j < 26 →
    Gen.nameChars.getD i 0 = Gen.nameChars.getD j 0 → i = j := by
  decide +kernel

theorem nameForId_eq (id : Nat) : nameForId id =
    if id ≥ 26 then nameForId (id / 26) ++ [Gen.nameChars.getD (id % 26) 0]
    else [Gen.nameChars.getD (id % 26) 0] := by
  rw [nameForId]
  simp only [nameChars_length]
  split <;> split <;> first | rfl | omega

theorem nameForId_ne_nil (id : Nat) : nameForId id ≠ [] := by
  rw [nameForId_eq]; split <;> simp

theorem nameForId_inj : ∀ a b : Nat, nameForId a = nameForId b → a = b := by
  intro a
  induction a using Nat.strongRecOn with
  | _ a ih =>
    intro b h
    rw [nameForId_eq a, nameForId_eq b] at h
    by_cases ha : a ≥ 26 <;> by_cases hb : b ≥ 26 <;> simp only [ha, hb, if_true, if_false] at h
    · have h' := List.append_inj' h rfl
      have h1 := ih (a / 26) (Nat.div_lt_self (by omega) (by omega)) (b / 26) h'.1
      have h2 := ch_inj _ (Nat.mod_lt _ (by omega)) _ (Nat.mod_lt _ (by omega)) (by simpa using h'.2)
      omega
    · exfalso
      have := congrArg List.length h
      have hne := nameForId_ne_nil (a / 26)
      have : (nameForId (a / 26)).length = 0 := by simpa using this
      exact hne (List.length_eq_zero_iff.mp this)
    · exfalso
      have := congrArg List.length h
      have hne := nameForId_ne_nil (b / 26)
      have : (nameForId (b / 26)).length = 0 := by simpa using this.symm
      exact hne (List.length_eq_zero_iff.mp this)
    · have h2 := ch_inj _ (Nat.mod_lt _ (by omega)) _ (Nat.mod_lt _ (by omega)) (by simpa using h)
      omega


/-! ### allocation loop -/

theorem reserved_iff (cfg : NameCfg) (n : Bytes) :
    reserved cfg n = true ↔ n ∈ Gen.preservedNames ++ cfg.keep.getD [] := by
  unfold reserved
  cases cfg.keep <;> simp

theorem alloc_spec (cfg : NameCfg) : ∀ fuel id,
    (alloc cfg fuel id = none → ∀ k, id ≤ k → k < id + fuel → reserved cfg (nameForId k) = true) ∧
    (∀ nm nxt, alloc cfg fuel id = some (nm, nxt) → id < nxt ∧ reserved cfg nm = false ∧
      nm = nameForId (nxt - 1) ∧ ∀ k, id ≤ k → k < nxt - 1 → reserved cfg (nameForId k) = true) := by
  intro fuel
  induction fuel with
  | zero => intro id; simp [alloc]; intros; omega
  | succ fuel ih =>
    intro id
    simp only [alloc]
    by_cases hr : reserved cfg (nameForId id) = true
    · simp only [hr, if_true]
      obtain ⟨ih1, ih2⟩ := ih (id + 1)
      refine ⟨fun h k hk1 hk2 => ?_, fun nm nxt h => ?_⟩
      · by_cases hk : k = id
        · subst hk; exact hr
        · exact ih1 h k (by omega) (by omega)
      · obtain ⟨h1, h2, h3, h4⟩ := ih2 nm nxt h
        refine ⟨by omega, h2, h3, fun k hk1 hk2 => ?_⟩
        by_cases hk : k = id
        · subst hk; exact hr
        · exact h4 k (by omega) hk2
    · simp only [hr]
      refine ⟨fun h => by simp at h, fun nm nxt h => ?_⟩
      simp at h
      obtain ⟨rfl, rfl⟩ := h
      refine ⟨by omega, by simpa using hr, by simp, fun k hk1 hk2 => by omega⟩

theorem alloc_ne_none (cfg : NameCfg) (id : Nat) : alloc cfg (allocFuel cfg) id ≠ none := by
  intro h
  have hall := (alloc_spec cfg (allocFuel cfg) id).1 h
  have hnd : ((List.range' id (allocFuel cfg)).map nameForId).Nodup :=
    List.Pairwise.map nameForId (fun a b hab heq => hab (nameForId_inj a b heq)) List.nodup_range'
  have hsub : (List.range' id (allocFuel cfg)).map nameForId ⊆ Gen.preservedNames ++ cfg.keep.getD [] := by
    intro x hx
    obtain ⟨k, hk, rfl⟩ := List.mem_map.mp hx
    rw [List.mem_range'_1] at hk
    exact (reserved_iff cfg _).mp (hall k hk.1 hk.2)
  have := hnd.length_le_of_subset hsub
  simp [allocFuel] at this
  omega

theorem alloc_total (cfg : NameCfg) (id : Nat) :
    ∃ nm nxt, alloc cfg (allocFuel cfg) id = some (nm, nxt) ∧ id < nxt ∧ reserved cfg nm = false ∧
      nm = nameForId (nxt - 1) ∧ ∀ k, id ≤ k → k < nxt - 1 → reserved cfg (nameForId k) = true := by
  cases h : alloc cfg (allocFuel cfg) id with
  | none => exact absurd h (alloc_ne_none cfg id)
  | some p =>
    obtain ⟨nm, nxt⟩ := p
    exact ⟨nm, nxt, rfl, (alloc_spec cfg _ id).2 nm nxt h⟩


/-! ### factory state invariant -/

/-- the value bound to `n` in the factory's map (first match, as `find?` does) -/
def lookup (st : NameSt) (n : Bytes) : Option Bytes := (st.map.find? (·.1 == n)).map (·.2)

/-- every bound value is a non-reserved generated name with id below `next`; distinct keys have distinct values -/
def Inv (cfg : NameCfg) (st : NameSt) : Prop :=
  (∀ n v, lookup st n = some v → reserved cfg v = false ∧ ∃ k, k < st.next ∧ v = nameForId k) ∧
  (∀ n m v, lookup st n = some v → lookup st m = some v → n = m)

theorem inv_init (cfg : NameCfg) : Inv cfg {} := by
  constructor <;> simp [lookup]

/-- what a request returns: the name itself if kept, otherwise the value bound in the final map -/
def Out (cfg : NameCfg) (stf : NameSt) (n o : Bytes) : Prop :=
  if cfg.keepAll = true ∨ reserved cfg n = true then o = n else lookup stf n = some o

theorem lookup_push (st : NameSt) (n nm : Bytes) (nxt : Nat) (m : Bytes) :
    lookup { map := st.map ++ [(n, nm)], next := nxt } m =
      (lookup st m).or (if n = m then some nm else none) := by
  simp only [lookup, List.find?_append]
  cases h : st.map.find? (fun x => x.1 == m) with
  | some e => simp
  | none =>
    by_cases hnm : n = m <;> simp [hnm]

theorem step_spec (cfg : NameCfg) (st : NameSt) (n : Bytes) (hinv : Inv cfg st) :
    Inv cfg (getShortName cfg st n).1 ∧
    (∀ m v, lookup st m = some v → lookup (getShortName cfg st n).1 m = some v) ∧
    Out cfg (getShortName cfg st n).1 n (getShortName cfg st n).2 := by
  unfold getShortName Out
  by_cases hk : cfg.keepAll = true
  · simp [hk, hinv]
  by_cases hr : reserved cfg n = true
  · simp [hk, hr, hinv]
  simp only [hk, hr, if_false, false_or, Bool.false_eq_true]
  cases hf : st.map.find? (fun x => x.1 == n) with
  | some e =>
    refine ⟨hinv, fun _ _ h => h, ?_⟩
    simp [lookup, hf]
  | none =>
    obtain ⟨nm, nxt, ha, hlt, hres, hnm, -⟩ := alloc_total cfg st.next
    simp only [ha]
    have hln : lookup st n = none := by simp [lookup, hf]
    refine ⟨⟨?_, ?_⟩, ?_, ?_⟩
    · intro m v hm
      rw [lookup_push] at hm
      cases hl : lookup st m with
      | some w =>
        rw [hl] at hm; simp at hm; subst hm
        obtain ⟨h1, k, hk1, hk2⟩ := hinv.1 m w hl
        exact ⟨h1, k, by simp only; omega, hk2⟩
      | none =>
        rw [hl] at hm
        by_cases hnm' : n = m
        · simp [hnm'] at hm; subst hm
          exact ⟨hres, nxt - 1, by simp only; omega, hnm⟩
        · simp [hnm'] at hm
    · intro a b v hA hB
      rw [lookup_push] at hA hB
      have key : ∀ c, lookup st c = some v → v ≠ nm := by
        intro c hc hv
        obtain ⟨-, k, hk1, hk2⟩ := hinv.1 c v hc
        have := nameForId_inj k (nxt - 1) (by rw [← hk2, hv, hnm])
        omega
      cases hla : lookup st a with
      | some w =>
        rw [hla] at hA; simp at hA; subst hA
        cases hlb : lookup st b with
        | some w' =>
          rw [hlb] at hB; simp at hB; subst hB
          exact hinv.2 a b _ hla hlb
        | none =>
          rw [hlb] at hB
          by_cases hnb : n = b
          · simp [hnb] at hB; exact absurd hB.symm (key a hla)
          · simp [hnb] at hB
      | none =>
        rw [hla] at hA
        by_cases hna : n = a
        · simp [hna] at hA
          cases hlb : lookup st b with
          | some w' =>
            rw [hlb] at hB; simp at hB; subst hB
            exact absurd hA.symm (key b hlb)
          | none =>
            rw [hlb] at hB
            by_cases hnb : n = b
            · rw [← hna, ← hnb]
            · simp [hnb] at hB
        · simp [hna] at hA
    · intro m v hm
      rw [lookup_push, hm]; rfl
    · rw [lookup_push, hln]; simp

theorem runFrom_spec (cfg : NameCfg) (runFrom : NameSt → List Bytes → List Bytes)
    (hnil : ∀ st, runFrom st [] = [])
    (hcons : ∀ st n rest, runFrom st (n :: rest) =
      (getShortName cfg st n).2 :: runFrom (getShortName cfg st n).1 rest) :
    ∀ ns st, Inv cfg st → ∃ stf, Inv cfg stf ∧
      (∀ m v, lookup st m = some v → lookup stf m = some v) ∧
      (runFrom st ns).length = ns.length ∧
      ∀ i (hi : i < ns.length), ∃ o, (runFrom st ns)[i]? = some o ∧ Out cfg stf ns[i] o := by
  intro ns
  induction ns with
  | nil => intro st hinv; exact ⟨st, hinv, fun _ _ h => h, by simp [hnil], fun i hi => by simp at hi⟩
  | cons n rest ih =>
    intro st hinv
    obtain ⟨hinv', hext, hout⟩ := step_spec cfg st n hinv
    obtain ⟨stf, hinvf, hextf, hlen, hall⟩ := ih _ hinv'
    refine ⟨stf, hinvf, fun m v h => hextf m v (hext m v h), by simp [hcons, hlen], ?_⟩
    intro i hi
    rw [hcons]
    cases i with
    | zero =>
      refine ⟨(getShortName cfg st n).2, by simp, ?_⟩
      simp only [List.getElem_cons_zero]
      unfold Out at hout ⊢
      split
      · rename_i h; rw [if_pos h] at hout; exact hout
      · rename_i h; rw [if_neg h] at hout; exact hextf _ _ hout
    | succ i =>
      simpa using hall i (by simpa using hi)


/-! ### consequences for a whole request history -/

/-- `outs` is the output history for requests `ns`: there is a final map satisfying the invariant that explains every output -/
def Good (cfg : NameCfg) (ns outs : List Bytes) : Prop :=
  ∃ stf, Inv cfg stf ∧ outs.length = ns.length ∧
    ∀ i (hi : i < ns.length), ∃ o, outs[i]? = some o ∧ Out cfg stf ns[i] o

theorem good_of_runFrom (cfg : NameCfg) (runFrom : NameSt → List Bytes → List Bytes)
    (hnil : ∀ st, runFrom st [] = [])
    (hcons : ∀ st n rest, runFrom st (n :: rest) =
      (getShortName cfg st n).2 :: runFrom (getShortName cfg st n).1 rest)
    (ns : List Bytes) : Good cfg ns (runFrom {} ns) := by
  obtain ⟨stf, h1, -, h3, h4⟩ := runFrom_spec cfg runFrom hnil hcons ns {} (inv_init cfg)
  exact ⟨stf, h1, h3, h4⟩

theorem Good.length {cfg ns outs} (g : Good cfg ns outs) : outs.length = ns.length := by
  obtain ⟨_, -, h, -⟩ := g; exact h

theorem Good.consistent {cfg ns outs} (g : Good cfg ns outs) (i j : Nat) (hi : i < ns.length)
    (hj : j < ns.length) (h : ns[i] = ns[j]) : outs[i]? = outs[j]? := by
  obtain ⟨stf, -, -, hall⟩ := g
  obtain ⟨oi, hoi, hi'⟩ := hall i hi
  obtain ⟨oj, hoj, hj'⟩ := hall j hj
  rw [hoi, hoj]
  unfold Out at hi' hj'
  rw [← h] at hj'
  split at hi'
  · rename_i hc; rw [if_pos hc] at hj'; rw [hi', hj']
  · rename_i hc; rw [if_neg hc] at hj'; rw [hi'] at hj'; exact hj'

theorem Good.injective {cfg ns outs} (g : Good cfg ns outs) (i j : Nat) (hi : i < ns.length)
    (hj : j < ns.length) (h : ns[i] ≠ ns[j]) : outs[i]? ≠ outs[j]? := by
  obtain ⟨stf, hinv, -, hall⟩ := g
  obtain ⟨oi, hoi, hi'⟩ := hall i hi
  obtain ⟨oj, hoj, hj'⟩ := hall j hj
  rw [hoi, hoj]
  intro heq
  have heq : oi = oj := by simpa using heq
  subst heq
  unfold Out at hi' hj'
  by_cases hk : cfg.keepAll = true
  · simp only [hk, true_or, if_true] at hi' hj'
    exact h (hi'.symm.trans hj')
  simp only [hk, Bool.false_eq_true, false_or] at hi' hj'
  by_cases hri : reserved cfg ns[i] = true <;> by_cases hrj : reserved cfg ns[j] = true
  · rw [if_pos hri] at hi'; rw [if_pos hrj] at hj'; exact h (hi'.symm.trans hj')
  · rw [if_pos hri] at hi'; rw [if_neg hrj] at hj'
    have := (hinv.1 _ _ hj').1
    rw [hi', hri] at this; cases this
  · rw [if_neg hri] at hi'; rw [if_pos hrj] at hj'
    have := (hinv.1 _ _ hi').1
    rw [hj', hrj] at this; cases this
  · rw [if_neg hri] at hi'; rw [if_neg hrj] at hj'
    exact h (hinv.2 _ _ _ hi' hj')

theorem Good.kept {cfg ns outs} (g : Good cfg ns outs) (i : Nat) (hi : i < ns.length)
    (h : cfg.keepAll = true ∨ reserved cfg ns[i] = true) : outs[i]? = some ns[i] := by
  obtain ⟨stf, -, -, hall⟩ := g
  obtain ⟨o, ho, hO⟩ := hall i hi
  unfold Out at hO
  rw [if_pos h] at hO
  rw [ho, hO]

theorem Good.fresh {cfg ns outs} (g : Good cfg ns outs) (i : Nat) (hi : i < ns.length) (o : Bytes)
    (ho : outs[i]? = some o) (hne : o ≠ ns[i]) : reserved cfg o = false := by
  obtain ⟨stf, hinv, -, hall⟩ := g
  obtain ⟨o', ho', hO⟩ := hall i hi
  rw [ho] at ho'
  have : o = o' := by simpa using ho'
  subst this
  unfold Out at hO
  split at hO
  · exact absurd hO hne
  · exact (hinv.1 _ _ hO).1

end Pico.C02L
