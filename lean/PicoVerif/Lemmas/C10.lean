import PicoVerif.Lemmas.NormRun
/-! Lemmas for C10: `normRun` cut into `normBreaks`, `dropSpacesBeforeLF`, `midRun` (the comment rewrites) and
`endRun` (final indent, all-spaces, blank lines, trailing run); the invariants of its output; idempotence of the
parts on the output; independence of the spaces around a line feed. -/
namespace Pico.Ast
open Pico.Lex

/-- the comment rewrites of `normRun` -/
def midRun (m : Nat) (st : Bool) (s : Bytes) : Bytes :=
  let s := if !st then subStartComment [32, 32, 45, 45] s else s
  let s := subLineComment (List.replicate m 32) s
  if st then subStartAnyComment s else s

/-- the last four rewrites of `normRun` -/
def endRun (m : Nat) (st e : Bool) (s : Bytes) : Bytes :=
  let s := subFinalIndent (List.replicate m 32) s
  let s := if st then subAllSpaces s else s
  let s := collapseLF s
  if e then subTrailing s else s

theorem normRun_eq (w d : Nat) (st e : Bool) (r : Bytes) :
    normRun w d st e r = endRun (w * d) st e (midRun (w * d) st (dropSpacesBeforeLF (normBreaks r))) := rfl

/-- no tab, no carriage return -/
def Clean (s : Bytes) : Prop := ∀ x ∈ s, x ≠ 9 ∧ x ≠ 13

/-- a `<spaces>--` at the very start has exactly `k` spaces -/
def StartOK (k : Nat) (s : Bytes) : Prop := ∀ n, spacesThenDashes s = some n → n = k

/-- a `<spaces>--` or `<spaces>//` at the very start has no spaces -/
def StartAnyOK (s : Bytes) : Prop := ∀ n mk, spacesThenComment s = some (n, mk) → n = 0

/-- what the start rewrite of `normRun` establishes: at the start of the token stream a leading comment (`--` or
`//`) is not indented; elsewhere a leading `--` comment is preceded by exactly two spaces -/
def StartGood (st : Bool) (s : Bytes) : Prop := if st then StartAnyOK s else StartOK 2 s

theorem StartGood_true (s : Bytes) : StartGood true s ↔ StartAnyOK s := Iff.rfl
theorem StartGood_false (s : Bytes) : StartGood false s ↔ StartOK 2 s := Iff.rfl

theorem repl2 : ([32, 32, 45, 45] : Bytes) = List.replicate 2 32 ++ [45, 45] := rfl

theorem Clean_of_mem {s t : Bytes} (h : Clean s) (ht : ∀ x ∈ t, x ∈ s ∨ x = 32 ∨ x = 45 ∨ x = 10) : Clean t := by
  intro x hx
  rcases ht x hx with h' | rfl | rfl | rfl
  · exact h x h'
  all_goals decide

/-! ### `midRun` -/

theorem midRun_false (m : Nat) (s : Bytes) :
    midRun m false s = subLineComment (List.replicate m 32) (subStartComment [32, 32, 45, 45] s) := rfl
theorem midRun_true (m : Nat) (s : Bytes) :
    midRun m true s = subStartAnyComment (subLineComment (List.replicate m 32) s) := rfl

theorem midRun_clean (m : Nat) (st : Bool) (s : Bytes) (h : Clean s) : Clean (midRun m st s) := by
  apply Clean_of_mem h
  intro x hx
  cases st with
  | false =>
    rw [midRun_false] at hx
    rcases mem_slc _ _ _ hx with hx | hx
    · rcases mem_subStartComment _ _ _ hx with hx | hx
      · exact Or.inl hx
      · simp at hx; rcases hx with rfl | rfl <;> simp
    · simp at hx; simp [hx.2]
  | true =>
    rw [midRun_true] at hx
    rcases mem_slc _ _ _ (mem_subStartAnyComment _ _ hx) with hx | hx
    · exact Or.inl hx
    · simp at hx; simp [hx.2]

theorem midRun_NoSpLF (m : Nat) (st : Bool) (s : Bytes) (h : NoSpLF s) : NoSpLF (midRun m st s) := by
  cases st with
  | false => rw [midRun_false, repl2]; exact NoSpLF_slc _ _ (NoSpLF_subStartComment _ _ h)
  | true => rw [midRun_true]; exact NoSpLF_subStartAnyComment _ (NoSpLF_slc _ _ h)

theorem LineOK_subStartAnyComment (m : Nat) (s : Bytes) (h : LineOK m s) : LineOK m (subStartAnyComment s) := by
  rcases subStartAnyComment_cases s with ⟨_, e⟩ | ⟨n, c, r, _, rfl, e⟩
  · rwa [e]
  · rw [e]; rw [LineOK_sp_append] at h; exact h

theorem midRun_LineOK (m : Nat) (st : Bool) (s : Bytes) : LineOK m (midRun m st s) := by
  cases st with
  | false => rw [midRun_false]; exact LineOK_slc _ _
  | true => rw [midRun_true]; exact LineOK_subStartAnyComment _ _ (LineOK_slc _ _)

theorem midRun_StartGood (m : Nat) (st : Bool) (s : Bytes) : StartGood st (midRun m st s) := by
  cases st with
  | false =>
    rw [StartGood_false]
    intro n hn
    rw [midRun_false, spacesThenDashes_slc, repl2, spacesThenDashes_subStartComment] at hn
    cases h : spacesThenDashes s <;> rw [h] at hn <;> simp at hn
    exact hn.symm
  | true =>
    rw [StartGood_true]
    intro n mk hn
    rw [midRun_true, spacesThenComment_subStartAnyComment] at hn
    cases h : spacesThenComment (subLineComment (List.replicate m 32) s) <;> rw [h] at hn <;> simp at hn
    exact hn.1.symm

theorem subStartComment_id (k : Nat) (s : Bytes) (h : StartOK k s) :
    subStartComment (List.replicate k 32 ++ [45, 45]) s = s := by
  rcases subStartComment_cases (List.replicate k 32 ++ [45, 45]) s with ⟨_, e⟩ | ⟨n, r, rfl, e⟩
  · exact e
  · have := h n (spacesThenDashes_comment n r)
    subst this
    rw [e]; simp

theorem subStartAnyComment_id (s : Bytes) (h : StartAnyOK s) : subStartAnyComment s = s := by
  rcases subStartAnyComment_cases s with ⟨_, e⟩ | ⟨n, c, r, hc, rfl, e⟩
  · exact e
  · have := h n _ (spacesThenComment_comment n c r hc)
    subst this
    rw [e]; simp

theorem midRun_id (m : Nat) (st : Bool) (s : Bytes) (h1 : LineOK m s) (h2 : StartGood st s) :
    midRun m st s = s := by
  cases st with
  | false => rw [midRun_false, repl2, subStartComment_id 2 s h2, slc_of_LineOK m s h1]
  | true => rw [midRun_true, slc_of_LineOK m s h1, subStartAnyComment_id s h2]

/-- the comment rewrites are compositional in front of a line feed -/
theorem midRun_append_lf (m : Nat) (st : Bool) (E t : Bytes) :
    midRun m st (E ++ 10 :: t) = midRun m st E ++ subLineComment (List.replicate m 32) (10 :: t) := by
  cases st with
  | false => rw [midRun_false, midRun_false, subStartComment_append_lf, slc_append_lf]
  | true =>
    rw [midRun_true, midRun_true, slc_append_lf]
    obtain ⟨t', e⟩ := slc_lf_head (List.replicate m 32) t
    rw [e, subStartAnyComment_append_lf]

/-! ### `endRun` -/

theorem endRun_eq (m : Nat) (st e : Bool) (s : Bytes) :
    endRun m st e s =
      (fun x => if e then subTrailing x else x) (collapseLF ((fun x => if st then subAllSpaces x else x)
        (subFinalIndent (List.replicate m 32) s))) := rfl

theorem endRun_true (m : Nat) (st : Bool) (s : Bytes) :
    endRun m st true s = subTrailing (collapseLF (if st then subAllSpaces (subFinalIndent (List.replicate m 32) s)
      else subFinalIndent (List.replicate m 32) s)) := rfl
theorem endRun_false (m : Nat) (st : Bool) (s : Bytes) :
    endRun m st false s = collapseLF (if st then subAllSpaces (subFinalIndent (List.replicate m 32) s)
      else subFinalIndent (List.replicate m 32) s) := rfl

theorem subAllSpaces_sub (st : Bool) (s : Bytes) :
    (if st then subAllSpaces s else s) = s ∨ (if st then subAllSpaces s else s) = [] := by
  cases st with
  | false => exact Or.inl rfl
  | true => rcases subAllSpaces_cases s with ⟨_, e⟩ | ⟨_, e⟩ <;> simp [e]

theorem subTrailing_sub (e : Bool) (s : Bytes) (P : Bytes → Prop) (h1 : P s) (h2 : P (subTrailing s)) :
    P (if e then subTrailing s else s) := by
  cases e <;> simpa

theorem endRun_clean (m : Nat) (st e : Bool) (s : Bytes) (h : Clean s) : Clean (endRun m st e s) := by
  apply Clean_of_mem h
  intro x hx
  rw [endRun_eq] at hx
  have hx : x ∈ collapseLF (if st then subAllSpaces (subFinalIndent (List.replicate m 32) s) else subFinalIndent (List.replicate m 32) s) := by
    cases e
    · exact hx
    · exact mem_subTrailing _ _ hx
  rw [mem_collapseLF] at hx
  rcases subAllSpaces_sub st (subFinalIndent (List.replicate m 32) s) with e' | e' <;> rw [e'] at hx
  · rcases mem_subFinalIndent _ _ _ hx with hx | hx
    · exact Or.inl hx
    · simp at hx; simp [hx.2]
  · simp at hx

theorem endRun_NoSpLF (m : Nat) (st e : Bool) (s : Bytes) (h : NoSpLF s) : NoSpLF (endRun m st e s) := by
  rw [endRun_eq]
  have h1 := NoSpLF_subFinalIndent m s h
  have h2 : NoSpLF (if st then subAllSpaces (subFinalIndent (List.replicate m 32) s) else subFinalIndent (List.replicate m 32) s) := by
    rcases subAllSpaces_sub st (subFinalIndent (List.replicate m 32) s) with e' | e' <;> rw [e']
    · exact h1
    · trivial
  have h3 := NoSpLF_collapseLF _ h2
  exact subTrailing_sub e _ NoSpLF h3 (NoSpLF_subTrailing _ h3)

theorem endRun_LineOK (k m : Nat) (st e : Bool) (s : Bytes) (h : LineOK k s) : LineOK k (endRun m st e s) := by
  rw [endRun_eq]
  have h1 := LineOK_subFinalIndent k m s h
  have h2 : LineOK k (if st then subAllSpaces (subFinalIndent (List.replicate m 32) s) else subFinalIndent (List.replicate m 32) s) := by
    rcases subAllSpaces_sub st (subFinalIndent (List.replicate m 32) s) with e' | e' <;> rw [e']
    · exact h1
    · trivial
  have h3 := LineOK_collapseLF _ _ h2
  exact subTrailing_sub e _ (LineOK k) h3 (LineOK_subTrailing _ _ h3)

theorem StartOK_nil (k : Nat) : StartOK k [] := by
  intro n hn
  have h0 := spacesThenDashes_sp 0 [] (by simp)
  simp at h0
  rw [h0] at hn; simp at hn

theorem endRun_StartOK (k m : Nat) (st e : Bool) (s : Bytes) (h : StartOK k s) : StartOK k (endRun m st e s) := by
  rw [endRun_eq]
  have h1 : StartOK k (subFinalIndent (List.replicate m 32) s) := by
    intro n hn; rw [spacesThenDashes_subFinalIndent] at hn; exact h n hn
  have h2 : StartOK k (if st then subAllSpaces (subFinalIndent (List.replicate m 32) s) else subFinalIndent (List.replicate m 32) s) := by
    rcases subAllSpaces_sub st (subFinalIndent (List.replicate m 32) s) with e' | e' <;> rw [e']
    · exact h1
    · exact StartOK_nil k
  have h3 : StartOK k (collapseLF (if st then subAllSpaces (subFinalIndent (List.replicate m 32) s) else subFinalIndent (List.replicate m 32) s)) := by
    intro n hn; rw [spacesThenDashes_collapseLF] at hn; exact h2 n hn
  apply subTrailing_sub e _ (StartOK k) h3
  intro n hn; rw [spacesThenDashes_subTrailing] at hn; exact h3 n hn

theorem StartAnyOK_nil : StartAnyOK [] := by
  intro n mk hn
  rw [spacesThenComment_nil] at hn; simp at hn

theorem endRun_StartAnyOK (m : Nat) (st e : Bool) (s : Bytes) (h : StartAnyOK s) : StartAnyOK (endRun m st e s) := by
  rw [endRun_eq]
  have h1 : StartAnyOK (subFinalIndent (List.replicate m 32) s) := by
    intro n mk hn; rw [spacesThenComment_subFinalIndent] at hn; exact h n mk hn
  have h2 : StartAnyOK (if st then subAllSpaces (subFinalIndent (List.replicate m 32) s) else subFinalIndent (List.replicate m 32) s) := by
    rcases subAllSpaces_sub st (subFinalIndent (List.replicate m 32) s) with e' | e' <;> rw [e']
    · exact h1
    · exact StartAnyOK_nil
  have h3 : StartAnyOK (collapseLF (if st then subAllSpaces (subFinalIndent (List.replicate m 32) s) else subFinalIndent (List.replicate m 32) s)) := by
    intro n mk hn; rw [spacesThenComment_collapseLF] at hn; exact h2 n mk hn
  apply subTrailing_sub e _ StartAnyOK h3
  intro n mk hn; rw [spacesThenComment_subTrailing] at hn; exact h3 n mk hn

theorem endRun_StartGood (m : Nat) (st e : Bool) (s : Bytes) (h : StartGood st s) : StartGood st (endRun m st e s) := by
  cases st with
  | false => exact endRun_StartOK 2 m false e s h
  | true => exact endRun_StartAnyOK m true e s h

theorem endRun_NoTriple (m : Nat) (st e : Bool) (s : Bytes) : NoTriple (endRun m st e s) := by
  rw [endRun_eq]
  exact subTrailing_sub e _ NoTriple (NoTriple_collapseLF _) (NoTriple_subTrailing _ (NoTriple_collapseLF _))

/-- the spaces after a final line feed do not matter -/
theorem endRun_lf_sp (m : Nat) (st e : Bool) (Y : Bytes) (k : Nat) :
    endRun m st e (Y ++ 10 :: List.replicate k 32) = endRun m st e (Y ++ [10]) := by
  rw [endRun_eq, endRun_eq, subFinalIndent_lf]
  have := subFinalIndent_lf (List.replicate m 32) Y 0
  simp only [List.replicate_zero] at this
  rw [this]

theorem all_sp_false_of_mem (s : Bytes) (x : UInt8) (hx : x ∈ s) (h : x ≠ 32) : s.all (· == 32) = false := by
  cases hs : s.all (· == 32) with
  | false => rfl
  | true => rw [List.all_eq_true] at hs; exact absurd (by simpa using hs x hx) h

/-- when the run does not end the file, its last line, if blank, is the indentation -/
theorem endRun_lf_sp_false (m : Nat) (st : Bool) (Y : Bytes) (k : Nat) :
    ∃ B, endRun m st false (Y ++ 10 :: List.replicate k 32) = B ++ [10] ++ List.replicate m 32 := by
  rw [endRun_eq, subFinalIndent_lf]
  have hA : (if st then subAllSpaces (Y ++ 10 :: List.replicate m 32) else Y ++ 10 :: List.replicate m 32) = Y ++ 10 :: List.replicate m 32 := by
    cases st with
    | false => rfl
    | true =>
      rcases subAllSpaces_cases (Y ++ 10 :: List.replicate m 32) with ⟨h, _⟩ | ⟨_, e⟩
      · rw [all_sp_false_of_mem _ 10 (by simp) (by decide)] at h; simp at h
      · simpa using e
  simp only [hA]
  rw [show Y ++ 10 :: List.replicate m (32 : UInt8) = (Y ++ [10]) ++ List.replicate m 32 by simp,
    collapseLF_append _ _ (by intro _; cases m <;> simp [List.replicate_succ]), collapseLF_no_lf (List.replicate m 32) (by simp)]
  have hl : (collapseLF (Y ++ [10])).getLast? = some 10 := by rw [collapseLF_getLast?]; simp
  obtain ⟨B, hB⟩ := List.getLast?_eq_some_iff.mp hl
  exact ⟨B, by rw [hB]; simp⟩

/-! ### idempotence of `endRun` -/

theorem subFinalIndent_nil (ind : Bytes) : subFinalIndent ind [] = [] := by
  have := subFinalIndent_spec ind [] 0 (by simp)
  simpa using this

theorem subFinalIndent_collapseLF (m : Nat) (v : Bytes) (h : subFinalIndent (List.replicate m 32) v = v) :
    subFinalIndent (List.replicate m 32) (collapseLF v) = collapseLF v := by
  obtain ⟨pre, k, rfl, hp⟩ := tail_sp_decomp v
  have hc : collapseLF (pre ++ List.replicate k 32) = collapseLF pre ++ List.replicate k 32 := by
    rw [collapseLF_append _ _ (by intro _; cases k <;> simp [List.replicate_succ]), collapseLF_no_lf (List.replicate k 32) (by simp)]
  rw [subFinalIndent_spec _ pre k hp] at h
  rw [hc, subFinalIndent_spec _ _ k (by rw [collapseLF_getLast?]; exact hp), collapseLF_getLast?]
  split
  · rename_i h10
    rw [if_pos h10] at h
    rw [List.append_cancel_left h]
  · rfl

theorem subAllSpaces_nil : subAllSpaces [] = [] := by
  rcases subAllSpaces_cases [] with ⟨_, e⟩ | ⟨_, e⟩ <;> exact e

theorem endRun_idem_false (m : Nat) (st : Bool) (s : Bytes) :
    endRun m st false (endRun m st false s) = endRun m st false s := by
  rw [endRun_eq m st false s]
  simp only [Bool.false_eq_true, if_false]
  generalize hu : subFinalIndent (List.replicate m 32) s = u
  have hFu : subFinalIndent (List.replicate m 32) u = u := by
    rw [← hu]; exact subFinalIndent_idem _ _ ⟨m, rfl⟩
  generalize hv : (if st then subAllSpaces u else u) = v
  have hFv : subFinalIndent (List.replicate m 32) v = v := by
    rcases subAllSpaces_sub st u with e' | e' <;> rw [hv] at e' <;> rw [e']
    · exact hFu
    · exact subFinalIndent_nil _
  have hAv : (if st then subAllSpaces (collapseLF v) else collapseLF v) = collapseLF v := by
    cases st with
    | false => rfl
    | true =>
      simp only [if_true] at hv ⊢
      rcases subAllSpaces_cases u with ⟨_, e'⟩ | ⟨hn, e'⟩ <;> rw [hv] at e'
      · rw [e']; simp [subAllSpaces_nil]
      · subst e'
        rcases subAllSpaces_cases (collapseLF v) with ⟨ha, _⟩ | ⟨_, e''⟩
        · exfalso
          rw [List.all_eq_true] at ha
          have : v.all (· == 32) = true := by
            rw [List.all_eq_true]; intro x hx; exact ha x ((mem_collapseLF v x).mpr hx)
          rw [this] at hn; simp at hn
        · exact e''
  rw [endRun_eq]
  simp only [Bool.false_eq_true, if_false]
  rw [subFinalIndent_collapseLF m v hFv, hAv, collapseLF_of_NoTriple _ (NoTriple_collapseLF v)]

theorem endRun_trail_fix (m : Nat) (st : Bool) (pre : Bytes) (hp : pre.getLast? ≠ some 32 ∧ pre.getLast? ≠ some 10)
    (hn : NoTriple pre) (b : Bool) :
    endRun m st true (pre ++ (if b then [10] else [])) = pre ++ (if b then [10] else []) := by
  have hAll : ∀ x : Bytes, x.all (· == 32) = false → (if st then subAllSpaces x else x) = x := by
    intro x hx
    cases st with
    | false => rfl
    | true =>
      rcases subAllSpaces_cases x with ⟨h, _⟩ | ⟨_, e⟩
      · rw [hx] at h; simp at h
      · simpa using e
  cases b with
  | false =>
    simp only [Bool.false_eq_true, if_false, List.append_nil]
    rw [endRun_true]
    have hF : subFinalIndent (List.replicate m 32) pre = pre := by
      have := subFinalIndent_spec (List.replicate m 32) pre 0 hp.1
      simpa [hp.2] using this
    have hA : (if st then subAllSpaces pre else pre) = pre := by
      cases st with
      | false => rfl
      | true =>
        rcases subAllSpaces_cases pre with ⟨ha, _⟩ | ⟨_, e⟩
        · cases hpre : pre.getLast? with
          | none => rw [List.getLast?_eq_none_iff.mp hpre]; simp [subAllSpaces_nil]
          | some c =>
            exfalso
            rw [List.all_eq_true] at ha
            have := ha c (List.mem_of_getLast? hpre)
            simp at this; subst this; exact hp.1 hpre
        · simpa using e
    rw [hF, hA, collapseLF_of_NoTriple pre hn]
    have := subTrailing_spec pre [] hp (by simp)
    simpa using this
  | true =>
    simp only [if_true]
    have hF : subFinalIndent (List.replicate m 32) (pre ++ [10]) = pre ++ 10 :: List.replicate m 32 := by
      simpa using subFinalIndent_lf (List.replicate m 32) pre 0
    rw [endRun_true, hF]
    rw [hAll _ (all_sp_false_of_mem _ 10 (by simp) (by decide))]
    rw [collapseLF_append pre _ (fun h => absurd h hp.2), collapseLF_of_NoTriple pre hn]
    have : collapseLF (10 :: List.replicate m 32) = 10 :: List.replicate m 32 := by
      rw [collapseLF_cons _ _ (by intro _ h; cases m <;> simp [List.replicate_succ] at h), collapseLF_no_lf _ (by simp)]
    rw [this]
    rw [subTrailing_spec pre _ hp (by intro x hx; simp at hx; rcases hx with rfl | ⟨_, rfl⟩ <;> simp)]
    simp

theorem endRun_idem (m : Nat) (st e : Bool) (s : Bytes) :
    endRun m st e (endRun m st e s) = endRun m st e s := by
  cases e with
  | false => exact endRun_idem_false m st s
  | true =>
    have hN := endRun_NoTriple m st true s
    obtain ⟨pre, t, hs, hp, ht, e'⟩ := subTrailing_cases (collapseLF (if st then subAllSpaces (subFinalIndent (List.replicate m 32) s)
      else subFinalIndent (List.replicate m 32) s))
    have hE : endRun m st true s = pre ++ (if t.contains 10 then [10] else []) := by rw [endRun_true]; exact e'
    rw [hE] at hN ⊢
    exact endRun_trail_fix m st pre hp (NoTriple_prefix _ _ hN) _

/-! ### the output of `normRun` -/

theorem normRun_good (w d : Nat) (st e : Bool) (r : Bytes) :
    Clean (normRun w d st e r) ∧ NoSpLF (normRun w d st e r) ∧ LineOK (w * d) (normRun w d st e r) ∧
      StartGood st (normRun w d st e r) ∧ NoTriple (normRun w d st e r) := by
  rw [normRun_eq]
  refine ⟨?_, ?_, ?_, ?_, endRun_NoTriple _ _ _ _⟩
  · apply endRun_clean; apply midRun_clean
    intro x hx; exact normBreaks_clean r x (mem_dsl _ _ hx)
  · exact endRun_NoSpLF _ _ _ _ (midRun_NoSpLF _ _ _ (NoSpLF_dsl _))
  · exact endRun_LineOK _ _ _ _ _ (midRun_LineOK _ _ _)
  · exact endRun_StartGood _ _ _ _ (midRun_StartGood _ _ _)

theorem normRun_idem (w d : Nat) (st e : Bool) (r : Bytes) :
    normRun w d st e (normRun w d st e r) = normRun w d st e r := by
  obtain ⟨h1, h2, h3, h4, _⟩ := normRun_good w d st e r
  rw [normRun_eq w d st e (normRun w d st e r),
    normBreaks_id _ (fun h => (h1 9 h).1 rfl) (fun h => (h1 13 h).2 rfl), dsl_of_NoSpLF _ h2, midRun_id _ _ _ h3 h4]
  rw [normRun_eq]
  exact endRun_idem _ _ _ _

/-! ### spaces around a line feed -/

/-- what `dropSpacesBeforeLF` makes of the part in front of a line feed does not depend on what follows it -/
theorem dsl_append_lf (x : Bytes) : ∃ Y, ∀ y, dropSpacesBeforeLF (x ++ 10 :: y) = Y ++ 10 :: dropSpacesBeforeLF y := by
  obtain ⟨pre, k, rfl, hp⟩ := tail_sp_decomp x
  refine ⟨dropSpacesBeforeLF pre, fun y => ?_⟩
  rw [List.append_assoc, dsl_append _ _ hp, dsl_sp_lf]

theorem ws_getLast? (ws : Bytes) (h : ws.all (fun c => c == 32 || c == 9) = true) : ws.getLast? ≠ some 13 := by
  intro hl
  rw [List.all_eq_true] at h
  have := h 13 (List.mem_of_getLast? hl)
  simp at this

theorem ws_head? (ws y : Bytes) (h : ws.all (fun c => c == 32 || c == 9) = true) (hy : y.head? ≠ some 13) :
    (ws ++ y).head? ≠ some 13 := by
  cases ws with
  | nil => simpa using hy
  | cons c ws =>
    simp only [List.all_cons, Bool.and_eq_true, Bool.or_eq_true, beq_iff_eq] at h
    simp; rcases h.1 with h | h <;> simp [h]

theorem normRun_indent (w d : Nat) (st : Bool) (pre : Bytes) (k : Nat) (hpre : pre.getLast? ≠ some 13) :
    ∃ body, normRun w d st false (pre ++ [10] ++ List.replicate k 32) = body ++ [10] ++ List.replicate (w * d) 32 ∧
      body.getLast? ≠ some 32 := by
  have hgood := (normRun_good w d st false (pre ++ [10] ++ List.replicate k 32)).2.1
  have hN : normBreaks (pre ++ [10] ++ List.replicate k 32) = normBreaks pre ++ 10 :: List.replicate k 32 := by
    rw [List.append_assoc, normBreaks_append _ _ hpre (by simp), normBreaks_id ([10] ++ List.replicate k 32) (by simp) (by simp)]
    simp
  obtain ⟨Y, hY⟩ := dsl_append_lf (normBreaks pre)
  rw [normRun_eq] at hgood ⊢
  rw [hN, hY, dsl_sp, midRun_append_lf, slc_lf_sp] at hgood ⊢
  obtain ⟨B, hB⟩ := endRun_lf_sp_false (w * d) st (midRun (w * d) st Y) k
  rw [hB] at hgood
  refine ⟨B, hB, ?_⟩
  intro hl
  have h1 := ((NoSpLF_append _ _).mp hgood).1
  exact ((NoSpLF_append _ _).mp h1).2.2 ⟨hl, rfl⟩

theorem normRun_trailing (w d : Nat) (st e : Bool) (a ws b : Bytes) (hws : ws.all (fun c => c == 32 || c == 9) = true)
    (ha : a.getLast? ≠ some 13) :
    normRun w d st e (a ++ ws ++ [10] ++ b) = normRun w d st e (a ++ [10] ++ b) := by
  rw [normRun_eq, normRun_eq]
  congr 2
  obtain ⟨b', hb'⟩ := normBreaks_lf_cons b
  have e1 : a ++ ws ++ [10] ++ b = a ++ (ws ++ 10 :: b) := by simp
  have e2 : a ++ [10] ++ b = a ++ 10 :: b := by simp
  rw [e1, e2, normBreaks_append a _ ha (ws_head? ws _ hws (by simp)), normBreaks_append a _ ha (by simp),
    normBreaks_append ws _ (ws_getLast? ws hws) (by simp), normBreaks_ws ws hws, hb', ← List.append_assoc, dsl_spaces_lf]

theorem lead_aux (m : Nat) (st e : Bool) (Q : Bytes) (hQ : Q.getLast? = some 10) (B : Bytes)
    (hB : B = [] ∨ (∃ c r, Mk c ∧ B = c :: c :: r) ∨ (∃ r, B = 10 :: r)) :
    ∃ R, ∀ j, endRun m st e (midRun m st (dropSpacesBeforeLF (Q ++ List.replicate j 32 ++ B))) = R := by
  obtain ⟨Q', rfl⟩ := List.getLast?_eq_some_iff.mp hQ
  obtain ⟨Y, hY⟩ := dsl_append_lf Q'
  rcases hB with rfl | ⟨c, r, hc, rfl⟩ | ⟨r, rfl⟩
  · refine ⟨endRun m st e (midRun m st Y ++ [10]), fun j => ?_⟩
    rw [List.append_nil, List.append_assoc, List.singleton_append, hY, dsl_sp, midRun_append_lf, slc_lf_sp, endRun_lf_sp]
  · refine ⟨endRun m st e (midRun m st Y ++ 10 :: (List.replicate m 32 ++
      c :: c :: subLineComment (List.replicate m 32) (dropSpacesBeforeLF r))), fun j => ?_⟩
    rw [List.append_assoc, List.append_assoc, List.singleton_append, hY, dsl_sp_cons _ _ _ hc.ne10 hc.ne32,
      dsl_cons_ne _ _ hc.ne32, midRun_append_lf, slc_lf_comment _ _ _ _ hc]
  · refine ⟨endRun m st e (midRun m st (dropSpacesBeforeLF (Q' ++ [10] ++ 10 :: r))), fun j => ?_⟩
    rw [dsl_spaces_lf]

theorem normRun_leading (w d : Nat) (st e : Bool) (a ws b : Bytes) (hws : ws.all (fun c => c == 32 || c == 9) = true)
    (hb : b = [] ∨ (∃ c r, Mk c ∧ b = c :: c :: r) ∨ (∃ r, b = 10 :: r)) :
    normRun w d st e (a ++ [10] ++ ws ++ b) = normRun w d st e (a ++ [10] ++ b) := by
  have hbh : b.head? ≠ some 13 := by
    rcases hb with rfl | ⟨c, r, hc, rfl⟩ | ⟨r, rfl⟩
    · simp
    · simp [hc.ne13]
    · simp
  have hB : normBreaks b = [] ∨ (∃ c r, Mk c ∧ normBreaks b = c :: c :: r) ∨ (∃ r, normBreaks b = 10 :: r) := by
    rcases hb with rfl | ⟨c, r, hc, rfl⟩ | ⟨r, rfl⟩
    · exact Or.inl rfl
    · exact Or.inr (Or.inl ⟨c, _, hc, normBreaks_marker c r hc⟩)
    · exact Or.inr (Or.inr (normBreaks_lf_cons r))
  obtain ⟨R, hR⟩ := lead_aux (w * d) st e (normBreaks (a ++ [10])) (normBreaks_getLast?_lf _ (by simp)) (normBreaks b) hB
  rw [normRun_eq, normRun_eq]
  have e1 : a ++ [10] ++ ws ++ b = (a ++ [10]) ++ (ws ++ b) := by simp
  rw [e1, normBreaks_append (a ++ [10]) (ws ++ b) (by simp) (ws_head? ws b hws hbh),
    normBreaks_append ws b (ws_getLast? ws hws) hbh, normBreaks_ws ws hws,
    normBreaks_append (a ++ [10]) b (by simp) hbh, ← List.append_assoc, hR]
  have := hR 0
  simp only [List.replicate_zero, List.append_nil] at this
  rw [this]

/-! ### a comment that starts a line is kept, indented -/

/-- `subFinalIndent` only touches what follows the last byte that is not a space -/
theorem subFinalIndent_keep (ind X T : Bytes) (c : UInt8) (hX : X.getLast? = some c) (hc : c ≠ 32) :
    ∃ T', subFinalIndent ind (X ++ T) = X ++ T' := by
  obtain ⟨pre, k, rfl, hp⟩ := tail_sp_decomp T
  have hl : (X ++ pre).getLast? ≠ some 32 := by
    rw [List.getLast?_append]
    cases h : pre.getLast? with
    | none => simp [hX, hc]
    | some x => rw [h] at hp; simpa using hp
  rw [← List.append_assoc, subFinalIndent_spec ind (X ++ pre) k hl]
  split
  · exact ⟨pre ++ ind, by simp⟩
  · exact ⟨pre ++ List.replicate k 32, by simp⟩

/-- `subTrailing` only touches what follows the last byte that is neither a space nor a line feed -/
theorem subTrailing_keep (X T : Bytes) (c : UInt8) (hX : X.getLast? = some c) (h32 : c ≠ 32) (h10 : c ≠ 10) :
    ∃ T', subTrailing (X ++ T) = X ++ T' := by
  obtain ⟨pre, t, rfl, ht, hp⟩ := tail_decomp (fun b => b == 32 || b == 10) T
  have hl : (X ++ pre).getLast? ≠ some 32 ∧ (X ++ pre).getLast? ≠ some 10 := by
    rw [List.getLast?_append]
    cases h : pre.getLast? with
    | none => simp [hX, h32, h10]
    | some x =>
      have := hp x h
      simp only [Bool.or_eq_false_iff, beq_eq_false_iff_ne, ne_eq] at this
      simpa using this
  rw [← List.append_assoc, subTrailing_spec (X ++ pre) t hl (fun x hx => by simpa using ht x hx)]
  exact ⟨pre ++ (if t.contains 10 then [10] else []), by simp⟩

/-- the last four rewrites keep a line `<LF> <indent> <marker>` -/
theorem endRun_keep (m : Nat) (st e : Bool) (P T : Bytes) (c : UInt8) (h32 : c ≠ 32) (h10 : c ≠ 10) :
    ∃ pre post, endRun m st e (P ++ 10 :: (List.replicate m 32 ++ c :: c :: T)) =
      pre ++ [10] ++ List.replicate m 32 ++ [c, c] ++ post := by
  have e0 : P ++ 10 :: (List.replicate m 32 ++ c :: c :: T) = (P ++ [10] ++ List.replicate m 32 ++ [c, c]) ++ T := by simp
  have hX : ∀ Q : Bytes, (Q ++ [10] ++ List.replicate m 32 ++ [c, c]).getLast? = some c := by
    intro Q; rw [List.getLast?_append]; rfl
  rw [endRun_eq, e0]
  obtain ⟨T1, h1⟩ := subFinalIndent_keep (List.replicate m 32) _ T c (hX P) h32
  rw [h1]
  have hA : (if st then subAllSpaces (P ++ [10] ++ List.replicate m 32 ++ [c, c] ++ T1) else P ++ [10] ++ List.replicate m 32 ++ [c, c] ++ T1)
      = P ++ [10] ++ List.replicate m 32 ++ [c, c] ++ T1 := by
    cases st with
    | false => rfl
    | true =>
      rcases subAllSpaces_cases (P ++ [10] ++ List.replicate m 32 ++ [c, c] ++ T1) with ⟨h, _⟩ | ⟨_, e'⟩
      · rw [all_sp_false_of_mem _ 10 (by simp) (by decide)] at h; simp at h
      · simpa using e'
  simp only [hA]
  -- `collapseLF` splits after the line feed and after the marker
  have hC : ∃ B, collapseLF (P ++ [10] ++ List.replicate m 32 ++ [c, c] ++ T1) =
      B ++ [10] ++ List.replicate m 32 ++ [c, c] ++ collapseLF T1 := by
    have hl : (collapseLF (P ++ [10])).getLast? = some 10 := by rw [collapseLF_getLast?]; simp
    obtain ⟨B, hB⟩ := List.getLast?_eq_some_iff.mp hl
    refine ⟨B, ?_⟩
    rw [show P ++ [10] ++ List.replicate m 32 ++ [c, c] ++ T1 = (P ++ [10]) ++ ((List.replicate m 32 ++ [c, c]) ++ T1) by simp,
      collapseLF_append (P ++ [10]) _ (by intro _; cases m <;> simp [List.replicate_succ, h10]),
      collapseLF_append (List.replicate m 32 ++ [c, c]) T1 (by intro h; simp at h; exact absurd h h10),
      collapseLF_no_lf (List.replicate m 32 ++ [c, c]) (by simp [Ne.symm h10]), hB]
    simp
  obtain ⟨B, hB⟩ := hC
  rw [hB]
  cases e with
  | false => exact ⟨B, collapseLF T1, rfl⟩
  | true =>
    obtain ⟨T2, h2⟩ := subTrailing_keep _ (collapseLF T1) c (hX B) h32 h10
    exact ⟨B, T2, h2⟩

/-- a line `<LF> <spaces and tabs> <marker>` of a run is written as `<LF> <indent> <marker>` -/
theorem normRun_comment_line (w d : Nat) (st e : Bool) (a ws b : Bytes) (c : UInt8)
    (hws : ws.all (fun c => c == 32 || c == 9) = true) (hc : Mk c) :
    ∃ pre post, normRun w d st e (a ++ [10] ++ ws ++ [c, c] ++ b) =
      pre ++ [10] ++ List.replicate (w * d) 32 ++ [c, c] ++ post := by
  have hQ := normBreaks_getLast?_lf (a ++ [10]) (by simp)
  obtain ⟨Q', hQ'⟩ := List.getLast?_eq_some_iff.mp hQ
  obtain ⟨Y, hY⟩ := dsl_append_lf Q'
  have hbh : (c :: c :: b).head? ≠ some 13 := by simp [hc.ne13]
  have e1 : a ++ [10] ++ ws ++ [c, c] ++ b = (a ++ [10]) ++ (ws ++ c :: c :: b) := by simp
  rw [normRun_eq, e1, normBreaks_append (a ++ [10]) _ (by simp) (ws_head? ws _ hws hbh),
    normBreaks_append ws _ (ws_getLast? ws hws) hbh, normBreaks_ws ws hws, normBreaks_marker c b hc, hQ',
    List.append_assoc, List.singleton_append, hY, dsl_sp_cons _ _ _ hc.ne10 hc.ne32, dsl_cons_ne _ _ hc.ne32,
    midRun_append_lf, slc_lf_comment _ _ _ _ hc]
  exact endRun_keep (w * d) st e _ _ c hc.ne32 hc.ne10

end Pico.Ast
