import PicoVerif.Base.Bytes
import PicoVerif.Gen.Lexer
import PicoVerif.Gen.Parser
import PicoVerif.Gen.Lua
import PicoVerif.Gen.Game
import PicoVerif.Model.P8scii
import PicoVerif.Props.C15
