import PicoVerif.Model.P8scii
import PicoVerif.Model.Sections
import PicoVerif.Model.P8File
import PicoVerif.Model.CartMem
import PicoVerif.Model.Accessors
import PicoVerif.Model.Compress
import PicoVerif.Model.P8Png
import PicoVerif.Spec.Stream
import PicoVerif.Spec.Formats
import PicoVerif.Model.Lexer
import PicoVerif.Model.Writers
import PicoVerif.Spec.LuaLex
import PicoVerif.Model.PicoGrammar
import PicoVerif.Model.AstWriters
import PicoVerif.Model.Build
import PicoVerif.Model.Include
import PicoVerif.Model.Require
import PicoVerif.Model.ReqWalk
import PicoVerif.Model.ToFile
import PicoVerif.Spec.EmptyCart
/-! Line-protocol driver over the executable models (compiled; must not import Mathlib).
One request per line: `op arg arg ...`; one response line per request.
Byte strings travel as lower-case hex (`-` = empty). -/
open Pico

def hexVal (c : Char) : Option Nat :=
  if '0' ≤ c ∧ c ≤ '9' then some (c.toNat - 48)
  else if 'a' ≤ c ∧ c ≤ 'f' then some (c.toNat - 87)
  else none

def parseHexArr (s : String) : Option (Array UInt8) :=
  if s == "-" then some #[] else Id.run do
    let cs := s.toList.toArray
    if cs.size % 2 ≠ 0 then return none
    let mut out : Array UInt8 := Array.mkEmpty (cs.size / 2)
    for i in [0:cs.size / 2] do
      match hexVal cs[2*i]!, hexVal cs[2*i+1]! with
      | some x, some y => out := out.push (x * 16 + y).toUInt8
      | _, _ => return none
    return some out

def parseHex (s : String) : Option Bytes := (parseHexArr s).map (·.toList)

def hexChar (n : Nat) : Char := if n < 10 then Char.ofNat (48 + n) else Char.ofNat (87 + n)

def showHex (bs : Bytes) : String :=
  if bs.isEmpty then "-" else
  String.ofList (bs.foldr (fun b acc => hexChar (b.toNat / 16) :: hexChar (b.toNat % 16) :: acc) [])

def showNats (ns : List Nat) : String :=
  if ns.isEmpty then "-" else " ".intercalate (ns.map toString)

def parseNats (ws : List String) : Option (List Nat) := ws.mapM (fun w => w.toNat?)

def showErr (e : Err) : String := "err " ++ e.name

def showEx (r : Except Err Bytes) : String :=
  match r with | .ok b => "ok " ++ showHex b | .error e => showErr e

/-- rows encoded as hex strings separated by ':' (`.` = empty list of rows, `-` = an empty row) -/
def parseRows (s : String) : Option (List Bytes) :=
  if s == "." then some [] else (s.splitOn ":").mapM parseHex

def showRows (rs : List Bytes) : String :=
  if rs.isEmpty then "." else ":".intercalate (rs.map showHex)

def optNat (s : String) : Option (Option Nat) := if s == "n" then some none else s.toNat?.map some
def optBool (s : String) : Option (Option Bool) :=
  if s == "n" then some none else if s == "t" then some (some true) else if s == "f" then some (some false) else none

def utf8OfCps (cps : List Nat) : Bytes := (String.ofList (cps.map Char.ofNat)).toUTF8.toList
def cpsOfUtf8 (bs : Bytes) : Option (List Nat) :=
  (String.fromUTF8? (ByteArray.mk bs.toArray)).map fun s => s.toList.map (·.toNat)

/-- checksum of the accessor state (compared with the same function over the implementation's regions) -/
def chk (regions : List Bytes) : Nat :=
  regions.foldl (fun h r => r.foldl (fun h b => (h * 257 + b.toNat + 1) % 1000000007) ((h * 31 + 7) % 1000000007)) 0

structure St where
  gfx : Bytes := []
  map : Bytes := []
  gff : Bytes := []
  sfx : Bytes := []
  mus : Bytes := []

def St.chk (s : St) : String := toString (_root_.chk [s.gfx, s.map, s.gff, s.sfx, s.mus])

def showCart (c : P8File.Cart) : String :=
  s!"ok {c.version} {showHex c.code} {showHex c.gfx} {showHex c.gff} {showHex c.map} {showHex c.sfx} {showHex c.music} " ++
    (match c.label with | some l => showHex l | none => "none")

def parseCart (v code gfx gff map sfx mus lbl : String) : Option P8File.Cart := do
  let version ← v.toNat?
  let code ← parseHex code; let gfx ← parseHex gfx; let gff ← parseHex gff; let map ← parseHex map
  let sfx ← parseHex sfx; let mus ← parseHex mus
  let label ← (if lbl == "none" then some none else (parseHex lbl).map some)
  pure { version, code, gfx, gff, map, sfx, music := mus, label }

def showTok (t : Lex.Tok) : String :=
  let q := match t.mlq, t.quote with
    | some d, _ => s!"m{d.length}"
    | none, some q => toString q.toNat
    | none, none => "-"
  s!"{t.kind.str}.{showHex t.data}.{t.line}.{t.col}.{q}"

def showToks (r : Except Err (List Lex.Tok)) : String :=
  match r with
  | .ok ts => "ok " ++ (if ts.isEmpty then "-" else " ".intercalate (ts.map showTok))
  | .error e => showErr e

def parseChunks (s : String) : Option (List Bytes) := if s == "." then some [] else (s.splitOn ":").mapM parseHex

def nameCfg (mode keep : String) : Option Wr.NameCfg :=
  if mode == "default" then some {}
  else if mode == "keepall" then some { keepAll := true }
  else if mode == "keepfile" then (parseHex keep).map fun c => { keep := some (Wr.readNamesFile c) }
  else none

partial def showTree : Peg.Tree → String
  | .leaf _ => ""
  | .node k s e cs => "(" ++ (Gram.kindNames.getD k "?") ++ " " ++ toString s ++ " " ++ toString e ++ String.join (cs.map showTree) ++ ")"

def isNode : Peg.Tree → Bool | .node _ _ _ _ => true | _ => false

/-- projection onto what the Python AST keeps: the short-if condition is stored unwrapped (`exp.value`), an empty
short-if `else` chunk is dropped -/
partial def project : Peg.Tree → List Peg.Tree
  | .leaf i => [.leaf i]
  | .node k s e cs =>
    let cs' := (cs.map project).flatten
    if k == Gram.kStatIfShort then
      match cs'.filter isNode with
      | (.node k0 _ _ inner) :: rest =>
        if k0 == Gram.kExpValue then
          let innerNodes := inner.filter isNode
          let rest' := match rest with
            | [blk, (.node kc s2 e2 cs2)] =>
              if kc == Gram.kChunk && (cs2.filter isNode).isEmpty then [blk] else [blk, .node kc s2 e2 cs2]
            | r => r
          [.node k s e (innerNodes ++ rest')]
        else [.node k s e cs']
      | _ => [.node k s e cs']
    else [.node k s e cs']

def parseToks (toks : List Lex.Tok) : String :=
  let arr := toks.toArray
  let fuel := 50 * arr.size + 200
  match Peg.run Gram.gram arr fuel (.nt Gram.nChunk) { pos := 0, maxPos := none } with
  | .error e => showErr e
  | .ok none => "err parse"
  | .ok (some (ts, _)) => "ok " ++ String.join ((ts.map project).flatten.map showTree)

def pathBytes (p : List Char) : Bytes := p.map (fun c => c.toNat.toUInt8)

/-- `evalreq` argument reader: files with their call lists (kept / stripped), then the locate table -/
def readCalls : Nat → List String → Option (List Req.Call × List String)
  | 0, ws => some ([], ws)
  | n + 1, name :: ugl :: ws =>
    match parseHex name, readCalls n ws with
    | some nm, some (cs, rest) =>
      some ((if ugl == "e" then (.error .build : Req.Call) else .ok (nm, ugl == "1")) :: cs, rest)
    | _, _ => none
  | _, _ => none

def readFiles : Nat → List String → Option (List (List Req.Call × List Req.Call) × List String)
  | 0, ws => some ([], ws)
  | n + 1, k :: ws =>
    match k.toNat? with
    | some k =>
      match readCalls k ws with
      | some (keep, s :: ws2) =>
        match s.toNat? with
        | some s =>
          match readCalls s ws2 with
          | some (strip, ws3) =>
            match readFiles n ws3 with
            | some (fs, rest) => some ((keep, strip) :: fs, rest)
            | none => none
          | none => none
        | none => none
      | _ => none
    | none => none
  | _, _ => none

def readLocs : Nat → List String → Option (List (Bytes × Nat × Nat))
  | 0, _ => some []
  | n + 1, name :: a :: b :: ws =>
    match parseHex name, a.toNat?, b.toNat?, readLocs n ws with
    | some nm, some a, some b, some r => some ((nm, a, b) :: r)
    | _, _, _, _ => none
  | _, _ => none

def rowsOfFlat (w : Nat) (flat : Bytes) : List Bytes := chunks (4 * w) flat

def accStep (st : St) (ws : List String) : St × String :=
  let bad := (st, "bad-op")
  let fin (r : Except Err St) (res : String := "") : St × String :=
    match r with
    | .ok s => (s, "ok " ++ (if res == "" then "" else res ++ " ") ++ s.chk)
    | .error e => (st, showErr e)
  match ws with
  | ["reset", g, m, f, s, mu] =>
    match parseHex g, parseHex m, parseHex f, parseHex s, parseHex mu with
    | some g, some m, some f, some s, some mu => let s' : St := ⟨g, m, f, s, mu⟩; (s', "ok " ++ s'.chk)
    | _, _, _, _, _ => bad
  | ["getsprite", id, tw, th] =>
    match id.toNat?, tw.toNat?, th.toNat? with
    | some id, some tw, some th =>
      (st, match Acc.getSprite st.gfx id tw th with | .ok rs => "ok " ++ showRows rs | .error e => showErr e)
    | _, _, _ => bad
  | ["setsprite", id, xo, yo, rows] =>
    match id.toNat?, xo.toNat?, yo.toNat?, parseRows rows with
    | some id, some xo, some yo, some rows =>
      fin ((Acc.setSprite st.gfx id (rows.map (·.map (·.toNat))) xo yo).map fun g => { st with gfx := g })
    | _, _, _, _ => bad
  | ["getcell", x, y] =>
    match x.toNat?, y.toNat? with
    | some x, some y => (st, match Acc.getCell ⟨st.map, st.gfx⟩ x y with | .ok v => s!"ok {v.toNat}" | .error e => showErr e)
    | _, _ => bad
  | ["setcell", x, y, v] =>
    match x.toNat?, y.toNat?, v.toNat? with
    | some x, some y, some v => fin ((Acc.setCell ⟨st.map, st.gfx⟩ x y v).map fun s => { st with map := s.map, gfx := s.gfx })
    | _, _, _ => bad
  | ["getrect", x, y, w, h] =>
    match x.toNat?, y.toNat?, w.toNat?, h.toNat? with
    | some x, some y, some w, some h =>
      (st, match Acc.getRectTiles ⟨st.map, st.gfx⟩ x y w h with | .ok rs => "ok " ++ showRows rs | .error e => showErr e)
    | _, _, _, _ => bad
  | ["setrect", x, y, rows] =>
    match x.toNat?, y.toNat?, parseRows rows with
    | some x, some y, some rows =>
      fin ((Acc.setRectTiles x y (rows.map (·.map (·.toNat))) 0 ⟨st.map, st.gfx⟩).map fun s => { st with map := s.map, gfx := s.gfx })
    | _, _, _ => bad
  | ["getflags", id, fl] =>
    match id.toNat?, fl.toNat? with
    | some id, some fl => (st, match Acc.getFlags st.gff id fl with | .ok v => s!"ok {v}" | .error e => showErr e)
    | _, _ => bad
  | [op, id, fl] =>
    match id.toNat?, fl.toNat? with
    | some id, some fl =>
      if op == "setflags" then fin ((Acc.setFlags st.gff id fl).map fun g => { st with gff := g })
      else if op == "clearflags" then fin ((Acc.clearFlags st.gff id fl).map fun g => { st with gff := g })
      else if op == "resetflags" then fin ((Acc.resetFlags st.gff id fl).map fun g => { st with gff := g })
      else if op == "getnote" then
        (st, match Acc.sfxGetNote st.sfx id fl with
             | .ok (p, w, v, e) => s!"ok {p.toNat} {w.toNat} {v.toNat} {e.toNat}" | .error e => showErr e)
      else if op == "getchannel" then
        (st, match Acc.musGetChannel st.mus id fl with
             | .ok (some p) => s!"ok {p}" | .ok none => "ok n" | .error e => showErr e)
      else bad
    | _, _ => bad
  | ["setnote", id, note, p, w, v, e] =>
    match id.toNat?, note.toNat?, optNat p, optNat w, optNat v, optNat e with
    | some id, some note, some p, some w, some v, some e =>
      fin ((Acc.sfxSetNote st.sfx id note p w v e).map fun s => { st with sfx := s })
    | _, _, _, _, _, _ => bad
  | ["getprops", id] =>
    match id.toNat? with
    | some id => (st, match Acc.sfxGetProps st.sfx id with
                      | .ok (a, b, c, d) => s!"ok {a.toNat} {b.toNat} {c.toNat} {d.toNat}" | .error e => showErr e)
    | none => bad
  | ["setprops", id, a, b, c, d] =>
    match id.toNat?, optNat a, optNat b, optNat c, optNat d with
    | some id, some a, some b, some c, some d => fin ((Acc.sfxSetProps st.sfx id a b c d).map fun s => { st with sfx := s })
    | _, _, _, _, _ => bad
  | ["setchannel", id, ch, p] =>
    match id.toNat?, ch.toNat?, optNat p with
    | some id, some ch, some p => fin ((Acc.musSetChannel st.mus id ch p).map fun m => { st with mus := m })
    | _, _, _ => bad
  | ["getmprops", id] =>
    match id.toNat? with
    | some id => (st, match Acc.musGetProps st.mus id with
                      | .ok (a, b, c) => s!"ok {a} {b} {c}" | .error e => showErr e)
    | none => bad
  | ["setmprops", id, a, b, c] =>
    match id.toNat?, optBool a, optBool b, optBool c with
    | some id, some a, some b, some c => fin ((Acc.musSetProps st.mus id a b c).map fun m => { st with mus := m })
    | _, _, _, _ => bad
  | _ => bad

def handle (st : St) (line : String) : St × String :=
  let ws := (line.splitOn " ").filter (· ≠ "")
  match ws with
  | "acc" :: rest => accStep st rest
  | _ =>
  (st, match ws with
  | ["p2u", h] =>
    match parseHex h with
    | some bs => "ok " ++ showNats (P8scii.toUnicode Gen.p8scii bs)
    | none => "bad-op"
  | "u2p" :: ws =>
    match parseNats (ws.filter (· ≠ "-")) with
    | some cps =>
      match P8scii.toP8 Gen.p8scii cps with
      | some r => "ok " ++ showNats r
      | none => "err key"
    | none => "bad-op"
  -- section codecs (lines travel concatenated)
  | ["gfx2l", h] => (parseHex h).elim "bad-op" fun d => "ok " ++ showHex (Sections.gfxToLines d).flatten
  | ["l2gfx", h] => (parseHex h).elim "bad-op" fun d => showEx (Sections.gfxFromLines (splitLines d))
  | ["hex2l", n, h] =>
    match n.toNat?, parseHex h with
    | some n, some d => "ok " ++ showHex (Sections.hexToLines n d).flatten
    | _, _ => "bad-op"
  | ["l2hex", h] => (parseHex h).elim "bad-op" fun d => showEx (Sections.hexFromLines (splitLines d))
  | ["sfx2l", h] => (parseHex h).elim "bad-op" fun d =>
      match Sections.sfxToLines d with | some ls => "ok " ++ showHex ls.flatten | none => "err index"
  | ["l2sfx", h] => (parseHex h).elim "bad-op" fun d => showEx (Sections.sfxFromLines (splitLines d))
  | ["mus2l", h] => (parseHex h).elim "bad-op" fun d =>
      match Sections.musicToLines d with | some ls => "ok " ++ showHex ls.flatten | none => "err index"
  | ["l2mus", h] => (parseHex h).elim "bad-op" fun d => showEx (Sections.musicFromLines (splitLines d))
  -- reference (Spec) renderings
  | ["spec_gfx", h] => (parseHex h).elim "bad-op" fun d => "ok " ++ showHex (Spec.gfxRows d).flatten
  | ["spec_hex", n, r, h] =>
    match n.toNat?, r.toNat?, parseHex h with
    | some n, some r, some d => "ok " ++ showHex (Spec.hexRows n r d).flatten
    | _, _, _ => "bad-op"
  | ["spec_sfx", h] => (parseHex h).elim "bad-op" fun d => "ok " ++ showHex (Spec.sfxRows d).flatten
  | ["spec_mus", h] => (parseHex h).elim "bad-op" fun d => "ok " ++ showHex (Spec.musicRows d).flatten
  -- .p8 file
  | ["p8w", v, code, gfx, gff, map, sfx, mus, lbl] =>
    match parseCart v code gfx gff map sfx mus lbl with
    | some c => match P8File.writeP8 Gen.p8scii c with
      | some f => "ok " ++ showHex (utf8OfCps f)
      | none => "err index"
    | none => "bad-op"
  | ["p8r", h] =>
    match parseHex h with
    | some bs => match cpsOfUtf8 bs with
      | some cps => match P8File.readP8 Gen.p8scii cps with
        | .ok c => showCart c
        | .error e => showErr e
      | none => "err value"
    | none => "bad-op"
  -- cart memory
  | ["c18", g, m, f, mu, s, d, a] =>
    match parseHex g, parseHex m, parseHex f, parseHex mu, parseHex s, parseHex d, a.toNat? with
    | some g, some m, some f, some mu, some s, some d, some a =>
      match CartMem.writeCartData ⟨g, m, f, mu, s⟩ d a with
      | .ok r => s!"ok {showHex r.gfx} {showHex r.map} {showHex r.gff} {showHex r.music} {showHex r.sfx}"
      | .error e => showErr e
    | _, _, _, _, _, _, _ => "bad-op"
  -- compression
  | ["comp", h] => (parseHex h).elim "bad-op" fun d => "ok " ++ showHex (Compress.compress d)
  | ["decomp", h] => (parseHex h).elim "bad-op" fun d =>
      match Compress.decompress d with
      | .ok (n, code, sz) => s!"ok {n} {showHex code} {sz}"
      | .error e => showErr e
  | ["refdec", h] => (parseHex h).elim "bad-op" fun d =>
      match Spec.refDecode d with | some r => "ok " ++ showHex r | none => "none"
  | ["findblock", h, pos] =>
    match parseHexArr h, pos.toNat? with
    | some d, some p => let r := Compress.findBlock d p; s!"ok {r.1} {r.2}"
    | _, _ => "bad-op"
  -- .p8.png
  | ["code2bytes", v, h] => (parseHex h).elim "bad-op" fun d => (v.toNat?).elim "bad-op" fun vn => showEx (P8Png.getBytesFromCode d vn)
  | ["bytes2code", v, h] =>
    match v.toNat?, parseHex h with
    | some v, some d =>
      match P8Png.getCodeFromBytes d v with
      | .ok (n, code, sz) => s!"ok {n} {showHex code} " ++ (match sz with | some z => toString z | none => "n")
      | .error e => showErr e
    | _, _ => "bad-op"
  | ["encrows", w, lbl, pico] =>
    match w.toNat?, parseHex lbl, parseHex pico with
    | some w, some l, some p => "ok " ++ showHex (P8Png.encRows (rowsOfFlat w l) p).flatten
    | _, _, _ => "bad-op"
  | ["decrows", w, rows] =>
    match w.toNat?, parseHex rows with
    | some w, some r => "ok " ++ showHex (P8Png.decRows (rowsOfFlat w r))
    | _, _ => "bad-op"
  | ["topixels", w, lbl, v, code, gfx, gff, map, sfx, mus] =>
    match w.toNat?, parseHex lbl, parseCart v code gfx gff map sfx mus "none" with
    | some w, some l, some c =>
      match P8Png.toPixels (rowsOfFlat w l) c with
      | .ok rows => "ok " ++ showHex rows.flatten
      | .error e => showErr e
    | _, _, _ => "bad-op"
  | ["frompixels", w, rows] =>
    match w.toNat?, parseHex rows with
    | some w, some r =>
      match P8Png.fromPixels (rowsOfFlat w r) with
      | .ok c => showCart c
      | .error e => showErr e
    | _, _ => "bad-op"
  -- lexer and token-stream writers
  | ["lex", cs] => (parseChunks cs).elim "bad-op" fun l => showToks (Lex.lex l)
  | ["echo", cs] => (parseChunks cs).elim "bad-op" fun l =>
      match Lex.lex l with
      | .ok ts => "ok " ++ showRows (Wr.echoLines ts [])
      | .error e => showErr e
  | ["minify", mode, keep, cs] =>
    match nameCfg mode keep, parseChunks cs with
    | some cfg, some l =>
      match Lex.lex l with
      | .ok ts => "ok " ++ showHex (Wr.minify cfg ts)
      | .error e => showErr e
    | _, _ => "bad-op"
  | ["tokcount", cs] => (parseChunks cs).elim "bad-op" fun l =>
      match Lex.lex l with
      | .ok ts => s!"ok {Wr.tokenCount ts}"
      | .error e => showErr e
  | ["parse", cs] => (parseChunks cs).elim "bad-op" fun l =>
      match Lex.lex l with
      | .ok ts => parseToks ts
      | .error e => showErr e
  | ["luafmt", w, cs] =>
    match w.toNat?, parseChunks cs with
    | some w, some l => match Lex.lex l with
      | .ok ts => showEx (Ast.luafmt w ts)
      | .error e => showErr e
    | _, _ => "bad-op"
  | ["astecho", cs] => (parseChunks cs).elim "bad-op" fun l =>
      match Lex.lex l with
      | .ok ts => showEx (Ast.astEcho ts)
      | .error e => showErr e
  | ["normrun", w, d, st, en, h] =>
    match w.toNat?, d.toNat?, parseHex h with
    | some w, some d, some r => "ok " ++ showHex (Ast.normRun w d (st == "1") (en == "1") r)
    | _, _, _ => "bad-op"
  -- build OUTEXTOK OUTEXISTS sec*6 where sec = file|n , empty(0/1) , exists , cartExt , luaExt
  | "build" :: oe :: ox :: secsArgs =>
    let parseSec (w : String) : Option (Build.SecArg × Build.FileInfo) :=
      match w.splitOn "," with
      | [f, e, x, c, l] =>
        some ({ file := f.toNat?, empty := e == "1" },
              { exists_ := x == "1", cartExt := c == "1", luaExt := l == "1", content := fun _ => [70] ++ (f.toUTF8.toList) })
      | _ => none
    match secsArgs.mapM parseSec with
    | some l =>
      if l.length ≠ 6 then "bad-op" else
      let idx (s : Build.Sec) : Nat := match s with | .lua => 0 | .gfx => 1 | .gff => 2 | .map => 3 | .sfx => 4 | .music => 5 | .label => 6
      let args : Build.Sec → Build.SecArg := fun s => (l.getD (idx s) ({}, ⟨false, false, false, fun _ => []⟩)).1
      -- file ids are per section here: file f of section s
      let files : Nat → Build.FileInfo := fun f => ((l.find? fun p => p.1.file == some f).map (·.2)).getD ⟨false, false, false, fun _ => []⟩
      match Build.doBuild (oe == "1") args files (fun _ => [69]) (if ox == "1" then some (fun _ => [79]) else none) with
      | .ok r => "ok " ++ " ".intercalate ((Build.secs ++ [Build.Sec.label]).map fun (s : Build.Sec) => String.ofList ((r s).map fun b => Char.ofNat b.toNat))
      | .error e => showErr e
    | none => "bad-op"
  | ["normpath", h] => (parseHex h).elim "bad-op" fun d => "ok " ++ showHex (pathBytes (Path.normpath (Inc.bytesToPath d)))
  | ["dirname", h] => (parseHex h).elim "bad-op" fun d => "ok " ++ showHex (pathBytes (Path.dirname (Inc.bytesToPath d)))
  | ["pathjoin", a, b] =>
    match parseHex a, parseHex b with
    | some a, some b => "ok " ++ showHex (pathBytes (Path.join (Inc.bytesToPath a) (Inc.bytesToPath b)))
    | _, _ => "bad-op"
  | ["within", a, b] =>
    match parseHex a, parseHex b with
    | some a, some b => if Path.isWithin (Inc.bytesToPath a) (Inc.bytesToPath b) then "ok 1" else "ok 0"
    | _, _ => "bad-op"
  | ["rootfor", home, f] =>
    match parseHex home, parseHex f with
    | some h, some f => "ok " ++ showHex (pathBytes (Inc.rootFor (Inc.bytesToPath h) (Gen.cartPaths.map String.toList) (Inc.bytesToPath f)))
    | _, _ => "bad-op"
  | ["matchinc", h] => (parseHex h).elim "bad-op" fun d =>
      match Inc.matchInclude d with
      | some m => s!"ok {showHex m.path} {showHex m.ext} " ++ (match m.tab with | some t => toString t | none => "n")
      | none => "none"
  | ["incline", root, dir, h] =>
    match parseHex root, parseHex dir, parseHex h with
    | some r, some d, some l =>
      match Inc.matchInclude l with
      | none => "pass"
      | some m =>
        let full := Path.normpath (Path.join (Inc.bytesToPath d) (Inc.bytesToPath (m.path ++ m.ext)))
        if !Path.isWithin full (Inc.bytesToPath r) then "err outside-root"
        else s!"want {showHex (pathBytes full)} {showHex m.ext} " ++ (match m.tab with | some t => toString t | none => "n")
    | _, _, _ => "bad-op"
  | ["tabs", t, cs] =>
    match optNat t, parseChunks cs with
    | some t, some l => "ok " ++ showRows ((Inc.linesForTab t l 0).map Inc.withNewline)
    | _, _ => "bad-op"
  | ["reqrej", h] => (parseHex h).elim "bad-op" fun d => if Inc.requireRejected d then "ok 1" else "ok 0"
  | ["reqcand", p, d, lp] =>
    match parseHex p, parseHex d, parseHex lp with
    | some p, some d, some lp =>
      "ok " ++ showRows ((Inc.requireCandidates (Inc.bytesToPath p) (Inc.bytesToPath d) (Inc.bytesToPath lp)).map pathBytes)
    | _, _, _ => "bad-op"
  | "evalreq" :: main :: nf :: ws =>
    match main.toNat?, nf.toNat? with
    | some main, some nf =>
      match readFiles nf ws with
      | some (files, nl :: ws2) =>
        match nl.toNat? with
        | some nl =>
          match readLocs nl ws2 with
          | some locs =>
            let w : Req.World := {
              locate := fun p from_ => (locs.find? fun l => l.1 == p && l.2.1 == from_).map (·.2.2),
              callsOf := fun f keep => match files[f]? with
                | some (k, s) => if keep then k else s
                | none => [] }
            match Req.evalCalls w (4 * nf + 4 * ws.length + 16) (w.callsOf main true) main [] with
            | .ok pkgs => "ok " ++ (if pkgs.isEmpty then "-" else " ".intercalate (pkgs.map fun p => s!"{showHex p.name}:{p.file}:{if p.keepLoop then 1 else 0}"))
            | .error e => showErr e
          | none => "bad-op"
        | none => "bad-op"
      | _ => "bad-op"
    | _, _ => "bad-op"
  | ["reqcalls", cs] => (parseChunks cs).elim "bad-op" fun l =>
      match Lex.lex l with
      | .error e => showErr e
      | .ok ts => match ReqWalk.requireCalls ts with
        | .error e => showErr e
        | .ok calls => "ok " ++ (if calls.isEmpty then "-" else " ".intercalate (calls.map fun c => match c with
            | .ok (p, b) => s!"{showHex p}:{if b then 1 else 0}"
            | .error _ => "E"))
  | ["pkgcode", keep, cs] => (parseChunks cs).elim "bad-op" fun l =>
      match ReqWalk.packageCode (keep == "1") l with
      | .error e => showErr e
      | .ok ts => "ok " ++ showHex (Wr.echo ts)
  -- buildlua MAIN LUAPATH (PATH CHUNKS)*
  | "buildlua" :: main :: lp :: ws =>
    let rec files : List String → Option ReqWalk.Files
      | [] => some []
      | p :: c :: rest => match parseHex p, parseChunks c, files rest with
        | some p, some c, some r => some ((Inc.bytesToPath p, c) :: r)
        | _, _, _ => none
      | _ => none
    match main.toNat?, parseHex lp, files ws with
    | some m, some lp, some fs => showEx (ReqWalk.buildLua fs m (Inc.bytesToPath lp))
    | _, _, _ => "bad-op"
  -- pgf OW CARTS STORE : CARTS = name,png,loads,(r:HEX|x) joined by ';' ; STORE = path=HEX joined by ';' ('.' = empty)
  | ["pgf", ow, carts, store] =>
    let parseCart (w : String) : Option ToFile.CartArg :=
      match w.splitOn "," with
      | [n, png, loads, e] =>
        let enc : Option ToFile.Enc :=
          if e == "x" then some (.raises [])
          else match e.splitOn ":" with
            | ["r", h] => (parseHex h).map fun b => .returns [b]
            | _ => none
        if (png == "1") != (n.endsWith ".p8.png") then none else
        enc.map fun en => { name := n, loads := loads == "1", enc := en }
      | _ => none
    let parseEntry (w : String) : Option (String × Bytes) :=
      match w.splitOn "=" with
      | [pth, h] => (parseHex h).map fun b => (pth, b)
      | _ => none
    match (if carts == "." then some [] else (carts.splitOn ";").mapM parseCart),
          (if store == "." then some [] else (store.splitOn ";").mapM parseEntry) with
    | some cs, some st =>
      let (st', oc) := ToFile.processGameFiles (ow == "1") cs st false
      let names := (st'.map (·.1)).eraseDups
      let sorted := names.toArray.qsort (· < ·) |>.toList
      let oc' := match oc with | .raised => "raised" | .done true => "rc1" | .done false => "rc0"
      s!"ok {oc'} " ++ (if sorted.isEmpty then "." else ";".intercalate (sorted.map fun n => s!"{n}={showHex ((ToFile.Store.get st' n).getD [])}"))
    | _, _ => "bad-op"
  -- the content of a new PICO-8 cart (Spec.Empty): gfx map gff music sfx
  | ["emptycart"] =>
    "ok " ++ " ".intercalate ([Spec.Empty.gfx, Spec.Empty.map, Spec.Empty.gff, Spec.Empty.music, Spec.Empty.sfx].map showHex)
  | ["stripdec", np, m] =>
    match (np.splitOn ":").mapM parseHex, (if m == "n" then some none else (parseHex m).map some) with
    | some np, some m => if Req.stripsStat np m then "ok 1" else "ok 0"
    | _, _ => "bad-op"
  | ["asmcode", main, pk] =>
    match parseHex main, (if pk == "." then some [] else (pk.splitOn ":").mapM parseHex) with
    | some m, some l =>
      let rec pairs : List Bytes → List (Bytes × Bytes)
        | a :: b :: r => (a, b) :: pairs r
        | _ => []
      "ok " ++ showHex (Req.assembleCode (pairs l) m)
    | _, _ => "bad-op"
  | ["speclex", h] => (parseHex h).elim "bad-op" fun d =>
      match Spec.Lex.lexSource d with
      | some ts => showToks (.ok ts)
      | none => "none"
  | ["specraw", h] => (parseHex h).elim "bad-op" fun d =>
      match Spec.Lex.extents (d.length + 1) d with
      | some ns => "ok " ++ showNats ns
      | none => "none"
  | ["numval", h] => (parseHex h).elim "bad-op" fun d => let r := Spec.Lex.numeralVal d; s!"ok {r.1} {r.2}"
  | ["nameforid", n] => (n.toNat?).elim "bad-op" fun n => "ok " ++ showHex (Wr.nameForId n)
  | "shortnames" :: mode :: keep :: names =>
    match nameCfg mode keep, names.mapM parseHex with
    | some cfg, some ns =>
      let (_, out) := ns.foldl (fun (acc : Wr.NameSt × List Bytes) n =>
        let (st', r) := Wr.getShortName cfg acc.1 n; (st', acc.2 ++ [r])) ({}, [])
      "ok " ++ showRows out
    | _, _ => "bad-op"
  | _ => "bad-op")

partial def loop (h : IO.FS.Stream) (out : IO.FS.Stream) (st : St) : IO Unit := do
  let line ← h.getLine
  if line.isEmpty then return ()
  let (st', resp) := handle st line.trimAscii.toString
  out.putStrLn resp
  loop h out st'

def main : IO Unit := do
  let out ← IO.getStdout
  loop (← IO.getStdin) out {}
  out.flush
