import PicoVerif.Model.P8scii
/-! Line-protocol driver over the executable models (compiled; must not import Mathlib).
One request per line: `op arg arg ...`; one response line per request.
Byte strings travel as lower-case hex (`-` = empty). -/
open Pico

def hexVal (c : Char) : Option Nat :=
  if '0' ≤ c ∧ c ≤ '9' then some (c.toNat - 48)
  else if 'a' ≤ c ∧ c ≤ 'f' then some (c.toNat - 87)
  else none

def parseHex (s : String) : Option Bytes :=
  if s == "-" then some [] else
  let rec go : List Char → Option Bytes
    | [] => some []
    | [_] => none
    | a :: b :: r => do
      let x ← hexVal a; let y ← hexVal b; let t ← go r
      pure ((x * 16 + y).toUInt8 :: t)
  go s.toList

def hexChar (n : Nat) : Char := if n < 10 then Char.ofNat (48 + n) else Char.ofNat (87 + n)

def showHex (bs : Bytes) : String :=
  if bs.isEmpty then "-" else
  String.ofList (bs.flatMap fun b => [hexChar (b.toNat / 16), hexChar (b.toNat % 16)])

def showNats (ns : List Nat) : String :=
  if ns.isEmpty then "-" else " ".intercalate (ns.map toString)

def parseNats (ws : List String) : Option (List Nat) :=
  ws.mapM (fun w => w.toNat?)

def handle (line : String) : String :=
  match (line.splitOn " ").filter (· ≠ "") with
  | ["p2u", h] =>
    match parseHex h with
    | some bs => "ok " ++ showNats (P8scii.toUnicode Gen.p8scii bs)
    | none => "bad-op"
  | "u2p" :: ws =>
    match parseNats (ws.filter (· ≠ "-")) with
    | some cps =>
      match P8scii.toP8 Gen.p8scii cps with
      | some r => "ok " ++ showNats r
      | none => "err key"
    | none => "bad-op"
  | _ => "bad-op"

partial def loop (h : IO.FS.Stream) (out : IO.FS.Stream) : IO Unit := do
  let line ← h.getLine
  if line.isEmpty then return ()
  out.putStrLn (handle (line.trimAscii.toString))
  loop h out

def main : IO Unit := do
  let out ← IO.getStdout
  loop (← IO.getStdin) out
  out.flush
